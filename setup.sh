#!/bin/bash
# Offline setup: nothing to install (stdlib-only harness). Verifies interpreter and the tree under test.
HERE="$(cd "$(dirname "${BASH_SOURCE[0]}")" && pwd)"
cd "$HERE" || exit 1
chmod +x check tools/*.py 2>/dev/null
mkdir -p evidence replay
PYTHONPATH="/repo:$HERE" PYTHONDONTWRITEBYTECODE=1 /venv/bin/python - <<'P'
import sys, os
assert sys.version_info[:2] >= (3, 12), sys.version
import prettyprinter
assert os.path.realpath(prettyprinter.__file__).startswith('/repo/'), prettyprinter.__file__
import vlib.runner, pytz, attr, pygments, colorful
print('setup ok: python', sys.version.split()[0], 'prettyprinter from', prettyprinter.__file__)
P
