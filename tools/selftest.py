#!/venv/bin/python
"""Mutation self-test of the checks: applies one small semantic change at a time to a scratch copy of /repo
(outside /repo and /verif, removed afterwards) and runs the named checks' quick tier against it with VERIF_REPO.
usage: selftest.py [mutant-id ...]      (no ids: all)   ->  table: mutant, check, caught?
A mutant is (id, file, old, new, [checks expected to catch it]). Exit 1 if an expected catch is missed.
"""
import os
import shutil
import subprocess
import sys
import tempfile

HOME = os.path.dirname(os.path.dirname(os.path.abspath(__file__)))
PP = 'prettyprinter/prettyprinter.py'
LAY = 'prettyprinter/layout.py'
DT = 'prettyprinter/doctypes.py'
STD = 'prettyprinter/pretty_stdlib.py'
INIT = 'prettyprinter/__init__.py'
COL = 'prettyprinter/color.py'

MUTANTS = [
    # ---- C01 / C02
    ('tuple1-no-comma', PP, "        if len(value) == 1:\n            dangle = True", "        if len(value) == 1:\n            dangle = False", ['C01']),
    ('neg-inf-sign', PP, "args=('-inf', )", "args=('inf', )", ['C01']),
    ('sort-desc', PP, "sorted(d.keys(), key=_AlwaysSortable)", "sorted(d.keys(), key=_AlwaysSortable, reverse=True)", ['C01']),
    ('sort-always', PP, "        if ctx.sort_dict_keys\n", "        if True\n", ['C01']),
    ('hardcut-off-by-one', PP, "split_at(max(remaining_len, 0), next_part)", "split_at(max(remaining_len - 1, 0), next_part)", ['C02']),
    ('escape-chosen-quote-dropped', PP, """            .replace(SINGLE_QUOTE_TEXT, "\\\\'")\n        )\n    else:""", """        )\n    else:""", ['C02', 'C01']),
    ('bytes-prefix-dropped-on-pieces', PP, "        if isinstance(s, bytes)\n        else ''\n    )\n\n    if use_quote is None:", "        if isinstance(s, bytes) and use_quote is None\n        else ''\n    )\n\n    if use_quote is None:", ['C02']),
    ('string-floor-removed', PP, "            8 + len('\"\"')\n", "            -1000\n", ['C02', 'C12']),
    # ---- C03
    ('kwargs-reordered-when-broken', PP, "    allarg_docs = [*argdocs, *kwargdocs]\n", "    allarg_docs = [*argdocs, *(kwargdocs if len(kwargdocs) < 3 else kwargdocs[::-1])]\n", ['C17']),
    ('dangle-comma-only-when-flat', PP, "    if dangle and not (docs and is_commented(docs[-1])):\n        parts.append(COMMA)", "    if dangle and not (docs and is_commented(docs[-1])):\n        parts.append(flat_choice(when_flat=COMMA, when_broken=NIL))", ['C03', 'C01']),
    ('bracket-nest-plus-one', PP, "        nest(ctx.indent, concat([SOFTLINE, child])),", "        nest(ctx.indent + 1, concat([SOFTLINE, child])),", ['C03']),
    # ---- C04 / C05 / C06
    ('sline-indent-plus-one', LAY, "            yield SLine(indent)\n", "            yield SLine(indent + 1)\n", ['C04']),
    ('flatchoice-wrong-branch-flat', LAY, "            elif mode is FLAT_MODE:\n                triplestack.append((indent, mode, doc.when_flat))\n            else:\n                raise ValueError\n        elif isinstance(doc, Nest):\n            # Increase indentation and process",
     "            elif mode is FLAT_MODE:\n                triplestack.append((indent, mode, doc.when_broken))\n            else:\n                raise ValueError\n        elif isinstance(doc, Nest):\n            # Increase indentation and process", ['C06']),
    ('annotation-pop-before-child', LAY, "            triplestack.append((indent, mode, SAnnotationPop(doc.annotation)))\n            triplestack.append((indent, mode, doc.doc))", "            triplestack.append((indent, mode, doc.doc))\n            triplestack.append((indent, mode, SAnnotationPop(doc.annotation)))", ['C04']),
    ('alwaysbreak-not-forcing', LAY, "        elif isinstance(doc, AlwaysBreak):\n            return False\n        elif doc is HARDLINE:\n            # In the fast algorithm", "        elif isinstance(doc, AlwaysBreak):\n            triplestack.append((indent, mode, doc.doc))\n        elif doc is HARDLINE:\n            # In the fast algorithm", ['C04']),
    ('concat-drops-last-child', DT, "            else:\n                normalized_docs.append(doc)\n\n        if not normalized_docs:\n            return NIL\n\n        if len(normalized_docs) == 1:", "            else:\n                normalized_docs.append(doc)\n\n        if len(normalized_docs) > 3:\n            normalized_docs.pop()\n\n        if not normalized_docs:\n            return NIL\n\n        if len(normalized_docs) == 1:", ['C04', 'C01']),
    ('fits-strict', LAY, "    chars_left = max_width\n\n    while chars_left >= 0:\n        if not triplestack:\n            return True\n\n        indent, mode, doc = triplestack.pop()\n\n        if doc is NIL:", "    chars_left = max_width\n\n    while chars_left > 0:\n        if not triplestack:\n            return True\n\n        indent, mode, doc = triplestack.pop()\n\n        if doc is NIL:", ['C06']),
    ('ribbon-ignored', LAY, "            available_width = min(columns_left_in_line, columns_left_in_ribbon)\n\n            if fitting_predicate(", "            available_width = columns_left_in_line\n\n            if fitting_predicate(", ['C05']),
    ('width-plus-one', LAY, "            columns_left_in_line = width - outcol\n            columns_left_in_ribbon = indent + ribbon_width - outcol\n            available_width = min(columns_left_in_line, columns_left_in_ribbon)\n\n            if fitting_predicate(", "            columns_left_in_line = width - outcol + 1\n            columns_left_in_ribbon = indent + ribbon_width - outcol\n            available_width = min(columns_left_in_line, columns_left_in_ribbon)\n\n            if fitting_predicate(", ['C05']),
    ('smart-indent-ge', LAY, "            if indent > min_nesting_level:", "            if indent >= min_nesting_level:", ['C06']),
    ('ribbon-int-not-round', LAY, "    ribbon_width = max(0, min(width, round(ribbon_frac * width)))\n\n    # The Strictly Pretty", "    ribbon_width = max(0, min(width, int(ribbon_frac * width)))\n\n    # The Strictly Pretty", ['C06']),
    ('seq-always-break-when-gt2', PP, "    will_break = force_break or minimum_output_len > MAX_PRACTICAL_RIBBON_WIDTH", "    will_break = force_break or len(docs) > 2", ['C06']),
    # ---- C07 / C08
    ('datetime-fold-omitted', STD, "    if getattr(dt, 'fold', None):\n        kwargs.append(('fold', 1))", "    if False:\n        kwargs.append(('fold', 1))", ['C07']),
    ('timedelta-years-ge', STD, "            if years > 1:", "            if years > 2:", ['C07']),
    ('deque-maxlen-dropped', STD, "    if value.maxlen is not None:\n        kwargs.append(('maxlen', value.maxlen))", "    if value.maxlen is not None and value.maxlen > 0:\n        kwargs.append(('maxlen', value.maxlen))", ['C07']),
    ('timedelta-neg-lost', STD, "    if negative:\n        doc = concat([NEG_OP, doc])", "    if negative and delta.days < -1:\n        doc = concat([NEG_OP, doc])", ['C07']),
    ('chainmap-one-empty', STD, "        len(value.maps) == 1 and\n        not value.maps[0]", "        len(value.maps) <= 2 and\n        not value.maps[0]", ['C07']),
    ('native-type-isinstance', PP, "    is_native_type = constructor in (tuple, list, set)\n", "    is_native_type = isinstance(value, (tuple, list, set))\n", ['C08']),
    ('str-wrapper-dropped-multiline', PP, "            if is_native_type:\n                return res\n            return build_fncall(ctx, constructor, argdocs=[res])", "            return res", ['C08']),
    ('qualname-to-name', PP, "        module, qualname = s.__module__, s.__qualname__\n", "        module, qualname = s.__module__, s.__name__\n", ['C08', 'C17']),
    # ---- C09 / C10 / C11
    ('comment-not-forcing-break', PP, "        if will_break or has_comment\n", "        if will_break\n", ['C09']),
    ('comment-fill-drops-last-word', PP, "        if len(alternating_words_ws) % 2 == 0:\n            # The last part must be whitespace.\n            alternating_words_ws = alternating_words_ws[:-1]", "        if len(alternating_words_ws) % 2 == 0 or len(alternating_words_ws) > 8:\n            # The last part must be whitespace.\n            alternating_words_ws = alternating_words_ws[:-1]", ['C09']),
    ('take-n-plus-one', PP, "            for el in take(ctx.max_seq_len, value)\n", "            for el in take(ctx.max_seq_len + 1, value)\n", ['C10']),
    ('truncate-count-wrong', PP, "            len(value) - ctx.max_seq_len\n        )", "            len(value) - ctx.max_seq_len - (1 if len(value) > 3 else 0)\n        )", ['C10']),
    ('dict-truncate-before-sort', PP, "    for k in take(ctx.max_seq_len, sorted_keys):", "    for k in sorted(take(ctx.max_seq_len, d.keys()), key=_AlwaysSortable) if ctx.sort_dict_keys else take(ctx.max_seq_len, sorted_keys):", ['C10']),
    ('tuple-elements-not-nested', PP, "                ctx=(\n                    ctx\n                    .nested_call()\n                    .use_multiline_strategy(MULTILINE_STRATEGY_HANG)\n                )\n            )\n            for el in take", "                ctx=(\n                    (ctx if isinstance(value, tuple) else ctx.nested_call())\n                    .use_multiline_strategy(MULTILINE_STRATEGY_HANG)\n                )\n            )\n            for el in take", ['C11']),
    ('hug-consumes-level', PP, "                argdocs=[pretty_python_value(sole_arg, ctx)],\n                hug_sole_arg=True,", "                argdocs=[pretty_python_value(sole_arg, ctx.nested_call())],\n                hug_sole_arg=True,", ['C11']),
    # ---- C12 / C13 / C14
    ('eager-flatchoice-normalize', DT, "        return FlatChoice(\n            self._when_broken,\n            self._when_flat,\n            normalize_on_access=True\n        )", "        return FlatChoice(\n            normalize_doc(self._when_broken),\n            normalize_doc(self._when_flat),\n            normalize_on_access=False\n        )", ['C12']),
    ('end-visit-skipped-for-dicts', PP, "    ctx.end_visit(value)\n\n    return doc", "    if not isinstance(value, dict):\n        ctx.end_visit(value)\n\n    return doc", ['C13']),
    ('visited-shared-across-calls', PP, "            visited=set(),\n            max_seq_len=max_seq_len,", "            visited=_SHARED_VISITED,\n            max_seq_len=max_seq_len,", ['C14']),
    ('except-valueerror-only', PP, "            doc = pretty_fn(value, ctx)\n        except Exception as e:\n            _warn_about_bad_printer(pretty_fn, value, exc=e)\n            doc = repr(value)\n\n    if not (", "            doc = pretty_fn(value, ctx)\n        except (ValueError, TypeError) as e:\n            _warn_about_bad_printer(pretty_fn, value, exc=e)\n            doc = repr(value)\n\n    if not (", ['C14']),
    ('fallback-str-not-repr', PP, "            _warn_about_bad_printer(pretty_fn, value, exc=e)\n            doc = repr(value)\n\n    if not (", "            _warn_about_bad_printer(pretty_fn, value, exc=e)\n            doc = str(value)\n\n    if not (", ['C14']),
    # ---- C15 / C18
    ('predicates-last-first', PP, "    for predicate, fn in _PREDICATE_REGISTRY:", "    for predicate, fn in reversed(_PREDICATE_REGISTRY):", ['C15']),
    ('register-deferred-false-registers', PP, "        if deferred_key in _DEFERRED_DISPATCH_BY_NAME:\n            if register_deferred:\n                deferred_dispatch = _DEFERRED_DISPATCH_BY_NAME.pop(\n                    deferred_key\n                )\n                register_pretty(type)(deferred_dispatch)", "        if deferred_key in _DEFERRED_DISPATCH_BY_NAME:\n            if True:\n                deferred_dispatch = _DEFERRED_DISPATCH_BY_NAME.pop(\n                    deferred_key\n                )\n                register_pretty(type)(deferred_dispatch)", ['C15']),
    ('promote-last-deferred-in-mro', PP, "        for supertype in type.__mro__[1:]:", "        for supertype in reversed(type.__mro__[1:]):", ['C15']),
    ('deferred-not-popped', PP, "                    deferred_dispatch = _DEFERRED_DISPATCH_BY_NAME.pop(\n                        deferred_key\n                    )\n                    register_pretty(supertype)(deferred_dispatch)", "                    deferred_dispatch = _DEFERRED_DISPATCH_BY_NAME[\n                        deferred_key\n                    ]\n                    register_pretty(supertype)(deferred_dispatch)", ['C15']),
    ('check-superclasses-ignored', PP, "    if not check_superclasses:\n        return False", "    if False:\n        return False", ['C15']),
    ('deferred-key-uses-name', PP, "    return type.__module__ + '.' + type.__qualname__", "    return type.__module__ + '.' + type.__name__", ['C15']),
    ('set-default-ribbon-into-width', INIT, "        new_defaults['ribbon_width'] = ribbon_width", "        new_defaults['width'] = ribbon_width", ['C18']),
    ('pprint-ignores-end', INIT, "    default_render_to_stream(stream, sdocs)\n    if end:\n        stream.write(end)", "    default_render_to_stream(stream, sdocs)\n    if end:\n        stream.write('\\n')", ['C18']),
    ('cpprint-drops-max-seq-len', INIT, "            ribbon_width=ribbon_width,\n            max_seq_len=max_seq_len,\n            sort_dict_keys=sort_dict_keys,\n        )\n    )\n    stream = (\n        # This is not in _default_config in case\n        # sys.stdout changes.\n        sys.stdout\n        if stream is _UNSET_SENTINEL\n        else stream\n    )\n    colored_render_to_stream", "            ribbon_width=ribbon_width,\n            max_seq_len=_UNSET_SENTINEL,\n            sort_dict_keys=sort_dict_keys,\n        )\n    )\n    stream = (\n        # This is not in _default_config in case\n        # sys.stdout changes.\n        sys.stdout\n        if stream is _UNSET_SENTINEL\n        else stream\n    )\n    colored_render_to_stream", ['C18']),
    # ---- C16
    ('color-leaks-when-stack-empties', COL, "                else:\n                    stream.write(str(colorful.reset))", "                else:\n                    pass", ['C16']),
    ('enclosing-color-not-restored', COL, "                if colorstack:\n                    stream.write(str(colorstack[-1]))", "                if colorstack:\n                    pass", ['C16']),
    ('color-cache-keyed-by-name-across-styles', COL, "    color_cache = {}\n", "    color_cache = _GLOBAL_COLOR_CACHE\n", ['C16']),
    ('token-mapping-removed', COL, "    Token.NUMBER_FLOAT: token.Number.Float,\n", "", ['C16']),
    # ---- C20
    ('promotion-outside-lock', PP, "    with _REGISTRY_LOCK:\n        return _is_registered(", "    if True:\n        return _is_registered(", ['C20']),
    ('lock-dropped-in-print-path', PP, "    with _REGISTRY_LOCK:\n        is_registered(\n            type(value),", "    if True:\n        is_registered(\n            type(value),", ['C20']),
    # ---- C19
    ('line-normalized-in-place', DT, "        return FlatChoice(\n            self._when_broken,\n            self._when_flat,\n            normalize_on_access=True\n        )", "        self.normalize_on_access = True\n        return self", ['C19']),
    ('sorted-keys-written-back', PP, "    pairs = []\n    for k in take(ctx.max_seq_len, sorted_keys):", "    if ctx.sort_dict_keys and type(d) is dict:\n        _items = [(k, d[k]) for k in sorted_keys]\n        d.clear()\n        d.update(_items)\n        sorted_keys = list(d.keys())\n    pairs = []\n    for k in take(ctx.max_seq_len, sorted_keys):", ['C19']),
]

EXTRA_SETUP = {
    'color-cache-keyed-by-name-across-styles': (COL, "default_dark_style = styles.get_style_by_name('monokai')", "_GLOBAL_COLOR_CACHE = {}\ndefault_dark_style = styles.get_style_by_name('monokai')"),
    'visited-shared-across-calls': (PP, "_DEFERRED_DISPATCH_BY_NAME = {}\n", "_DEFERRED_DISPATCH_BY_NAME = {}\n_SHARED_VISITED = set()\n"),
}


def run(ids):
    rc = 0
    todo = [m for m in MUTANTS if not ids or m[0] in ids]
    class Rows(list):
        def append(self, row):
            print('%-36s %-4s %s' % row, flush=True)
            list.append(self, row)
    rows = Rows()
    for mid, rel, old, new, checks in todo:
        tmp = tempfile.mkdtemp(prefix='verif-mut-')
        dst = os.path.join(tmp, 'repo')
        shutil.copytree('/repo', dst, ignore=shutil.ignore_patterns('.git', '__pycache__', 'docs', '*.png'))
        edits = [(rel, old, new)]
        if mid in EXTRA_SETUP:
            edits.append(EXTRA_SETUP[mid])
        ok = True
        for r, o, n in edits:
            p = os.path.join(dst, r)
            src = open(p).read()
            if src.count(o) != 1:
                rows.append((mid, '-', 'PATTERN matches %d times' % src.count(o)))
                ok = False
                break
            open(p, 'w').write(src.replace(o, n))
        if ok:
            for c in checks:
                if not os.path.exists(os.path.join(HOME, 'vlib', 'checks', c.lower() + '.py')):
                    rows.append((mid, c, 'check not built'))
                    continue
                env = dict(os.environ, VERIF_REPO=dst)
                p = subprocess.run([os.path.join(HOME, 'check'), c, 'quick'], env=env, stdout=subprocess.PIPE, stderr=subprocess.STDOUT, cwd=HOME)
                out = p.stdout.decode('utf-8', 'replace')
                keys = sorted(set(l.split('key=')[1].split(':')[0] for l in out.splitlines() if l.startswith('   key=')))
                if p.returncode == 1 and 'VIOLATION' in out:
                    rows.append((mid, c, 'caught  ' + ','.join(keys)[:100]))
                elif p.returncode == 2:
                    rows.append((mid, c, 'INCONCLUSIVE ' + out.strip().splitlines()[-1][:120]))
                    rc = 1
                else:
                    rows.append((mid, c, 'MISSED (exit %d)' % p.returncode))
                    rc = 1
        shutil.rmtree(tmp, ignore_errors=True)
    return rc


if __name__ == '__main__':
    sys.exit(run(sys.argv[1:]))
