#!/venv/bin/python
"""Regenerates MANIFEST.json from the check modules present in vlib/checks (metadata constants in each module)."""
import importlib, json, os, sys
HOME = os.path.dirname(os.path.dirname(os.path.abspath(__file__)))
sys.path.insert(0, HOME)
sys.path.insert(0, '/repo')
os.environ.setdefault('VERIF_HOME', HOME)
props = [json.loads(l) for l in open(os.path.join(HOME, 'properties.jsonl'))]
checks, na = [], []
for p in props:
    pid = p['id']
    path = os.path.join(HOME, 'vlib', 'checks', pid.lower() + '.py')
    if not os.path.exists(path):
        na.append({'property_id': pid, 'reason': 'check not built yet in this round (design in DESIGN.md section 3); not claimed until it runs clean'})
        continue
    mod = importlib.import_module('vlib.checks.' + pid.lower())
    if getattr(mod, 'NOT_CLAIMED', None):
        na.append({'property_id': pid, 'reason': mod.NOT_CLAIMED})
        continue
    level = getattr(mod, 'LEVEL', 'exploration')
    checks.append({
        'property_id': pid,
        'quick_cmd': './check %s quick' % pid,
        'thorough_cmd': './check %s thorough' % pid,
        'evidence_file': 'evidence/%s.json' % pid,
        'replay_cmd_template': './check %s --replay {path}' % pid,
        'engine': 'vlib',
        'level_claimed': {'category': level, 'text': mod.LEVEL_TEXT, 'design_ref': 'DESIGN.md section 3, ' + pid},
        'level_note': mod.LEVEL_NOTE,
        'technique': mod.TECHNIQUE,
    })
man = {
    'version': 1,
    'setup_cmd': './setup.sh',
    'hooks': {
        'guard': 'TOMMIKAIKKONEN_PRETTYPRINTER_VERIF',
        'enable': 'none needed: every monitor attaches from the harness (module-attribute wrappers, sys.monitoring); the guard name is reserved',
        'baseline_off_cmd': 'cd /repo && /venv/bin/python -m pytest -ra -q -p no:cacheprovider --timeout=900 --continue-on-collection-errors',
        'source_commits': [],
        'add_only': True,
    },
    'engines': [{'name': 'vlib', 'path': 'vlib/', 'serves_properties': [c['property_id'] for c in checks],
                 'kind_free_text': 'runtime monitoring harness: generated hostile workloads run against the real package under reference-model oracles, contracts on real functions, sys.monitoring step counters / deterministic thread scheduler, fault injection'}],
    'checks': checks,
    'not_applicable': na,
    'notes': 'All checks run /venv/bin/python against /repo\'s working tree (PYTHONPATH), fresh interpreter per worker. Exit 0 held / 1 VIOLATION / 2 inconclusive. Known findings in KNOWN_FINDINGS.txt.',
}
json.dump(man, open(os.path.join(HOME, 'MANIFEST.json'), 'w'), indent=1)
print('checks:', [c['property_id'] for c in checks], 'not claimed:', [n['property_id'] for n in na])
try:
    import jsonschema
    jsonschema.validate(man, json.load(open('/root/.vp/MANIFEST.schema.json')))
    print('manifest validates')
except ImportError:
    pass
