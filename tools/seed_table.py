#!/venv/bin/python
"""Markdown table of the seeded changes (seeded/*/meta.json): which property, what it needs, which checks caught it."""
import glob, json, os
HOME = os.path.dirname(os.path.dirname(os.path.abspath(__file__)))
rows = []
for f in sorted(glob.glob(os.path.join(HOME, 'seeded', '*', 'meta.json'))):
    m = json.load(open(f))
    res = m.get('checks_run_against_it (quick tier, VERIF_REPO=scratch worktree)', [])
    caught = []
    for r in res:
        parts = r.split(':')
        c, e = parts[0], parts[1]
        keys = parts[2] if len(parts) > 2 else ''
        caught.append('%s %s%s' % (c, 'caught' if e == 'exit=1' else (('MISSED' if c == m['breaks_property'] else 'held (another property)') if e == 'exit=0' else e), (' (' + keys.strip(',') + ')') if keys.strip(',') else ''))
    conf = m['confirmed']
    first = m.get('first_result_before_strengthening', '')
    rows.append('| %s | %s | %s | demo %d->%d, %s | %s |' % (m['name'], m['breaks_property'], '; '.join(caught), conf['demo_exit_on_clean_tree'], conf['demo_exit_with_patch'],
                                                        conf['pinned_suite_with_patch'].replace('stable tests passing: ', 'suite '), first))
print('| seeded change | property | checks (quick tier) | confirmation | note |')
print('|---|---|---|---|---|')
print('\n'.join(rows))
