#!/venv/bin/python
"""Runs the pinned test suite of the repository (guard off) and compares with BASELINE.json's stable_pass list.
usage: baseline.py [repo_dir]    exit 0 iff every stable test still passes."""
import json, os, subprocess, sys, tempfile
import xml.etree.ElementTree as ET
repo = sys.argv[1] if len(sys.argv) > 1 else '/repo'
base = json.load(open('/root/.vp/BASELINE.json')) if os.path.exists('/root/.vp/BASELINE.json') else None
out = tempfile.mktemp(suffix='.xml')
env = dict(os.environ)
env.pop('TOMMIKAIKKONEN_PRETTYPRINTER_VERIF', None)
cmd = ['/venv/bin/python', '-m', 'pytest', '-ra', '-q', '-p', 'no:cacheprovider', '--timeout=900',
       '--continue-on-collection-errors', '--junitxml=' + out]
p = subprocess.run(cmd, cwd=repo, env=env, stdout=subprocess.PIPE, stderr=subprocess.STDOUT)
tail = p.stdout.decode('utf-8', 'replace').splitlines()[-3:]
passed = set()
for tc in ET.parse(out).getroot().iter('testcase'):
    if not any(ch.tag in ('failure', 'error', 'skipped') for ch in tc):
        passed.add('%s::%s' % (tc.get('classname'), tc.get('name')))
os.remove(out)
print('\n'.join(tail))
if base:
    missing = [t for t in base['stable_pass'] if t not in passed]
    print('stable tests passing: %d / %d' % (len(base['stable_pass']) - len(missing), len(base['stable_pass'])))
    for t in missing:
        print('NOT PASSING:', t)
    sys.exit(1 if missing else 0)
