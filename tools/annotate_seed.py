#!/venv/bin/python
"""Records, in seeded/<name>/meta.json, the result the check gave BEFORE it was strengthened (measured with the committed version of that time)."""
import json, os, sys
HOME = os.path.dirname(os.path.dirname(os.path.abspath(__file__)))
NOTES = {
    'C18-A11-printer-object-snapshots-defaults': 'MISSED by C18 as built then (every PrettyPrinter object was built and used at the same point of the history); caught after keeping printer objects built BEFORE the set_default_config history and using them after it',
    'C07-A11-ordereddict-sorted-under-sort-dict-keys': 'MISSED by C07 as built then (its configurations never set sort_dict_keys); caught after adding sort_dict_keys=True configurations (plain dicts compared order-free there, OrderedDict order-sensitive)',
    'C07-A-pytz-zero-offset-as-utc': 'MISSED by C07 as first built (no zero-offset named zone in the generator); caught after adding GMT/Etc-UTC/Zulu/fixed-offset zones',
    'C17-A-dataclass-default-identity': 'MISSED by C17 as first built (field values were always the very default objects); caught after passing equal-but-distinct copies of defaults',
    'C19-A-str-to-lines-memo-without-pattern': 'MISSED by C19 as first built (no text printed both as str and as path); caught after adding same-content-through-different-printers corpus entries',
    'C11-B2-commented-dict-value-rerender-depth': 'MISSED by C11 as first built (no commented values); caught after adding comment()/trailing_comment() wrappers to the random trees',
    'C20-A2-exact-type-memo-stale-entry': 'MISSED by C20 as first built (needs a user re-registration, A\'s delayed write and a LATER print by B); caught after adding scenario S14 and the call-boundary return policy',
    'C20-B2-dispatch-outside-lock': 'MISSED by C20 quick as first built (window entirely inside functools, scenario S2 had package-only switch points); caught after adding functools/weakref switch points to S2 and S7',
    'C18-A2-pretty-repr-ignores-deferred': 'MISSED by C18 as first built (the pretty_repr type was registered by class); caught after adding a type registered by name whose first entry point is repr()',
    'C19-B2-dict-key-doc-memo-ignores-type': 'MISSED by C19 as first built (no str/bytes-subclass dict keys equal to plain keys); caught after adding equal keys of different types to the corpus',
    'C16-A2-colored-rstrip-separator-only': 'MISSED by C16 as first built (no comment text with trailing/lone tabs); caught after adding tab / vertical-tab / NBSP templates to the comment generator',
    'C17-B2-dataclass-classvar-pseudo-fields': 'MISSED by C17 as first built (no ClassVar pseudo-fields); caught after generating dataclasses with ClassVar attributes that are changed after class creation',
    'C07-A3-namedtuple-fields-named-fn-ctx': 'MISSED by C07 as built then (no namedtuple field / attribute names colliding with the package\'s own parameter names); caught after adding such names to namedtuples, namespaces, partial keywords, kwargs and dataclass fields - which also exposed a genuine defect of the dataclasses extra (fixed)',
    'C05-B3-lookahead-truncated-to-32-entries': 'MISSED by C05 as built then (random terms never leave more than ~30 pending documents after a group); caught after adding long-tail / deep-closing document families',
    'C12-A3-sole-non-container-argument-rendered-twice': 'MISSED by C12 as built then (no call nested as the sole positional non-container argument of a call); caught after adding every call shape (sole arg, several args, kwargs only) as wrappers',
    'C13-B3-no-visit-bookkeeping-for-predicate-printers': 'MISSED by C13 as built then (no cycle through an object printed by a predicate-registered printer or the dataclasses extra); caught after adding such node kinds',
    'C01-A3-tuple-key-compare-skips-by-identity': 'MISSED by C01 as built then (tuple keys never shared an equal but non-identical leading member); caught after adding the key-sorting family over small key domains',
    'C10-B3-call-argument-context-loses-max-seq-len': 'MISSED by C10 as built then (no container inside a namedtuple field / defaultdict argument); caught after adding call-style holders to the shapes',
    'C15-A3-deferred-lookup-skips-builtins-supertypes': 'MISSED by C15 as built then (all lattice classes lived in one ordinary module); caught after letting lattice roots claim the module builtins / __main__',
    'C06-B3-all-str-elements-exact-length-shortcut': 'MISSED by C06 as built then (no sequences of elements printed through the repr fallback); caught after adding Decimal/Fraction/complex/range/... elements to the one-line values',
    'C16-B4-default-style-cache-not-invalidated': 'MISSED by C16 as built then (every render passed an explicit style); caught after adding sequences of cpprint calls without style argument around set_default_style / set_default_config(style=...)',
    'C10-A4-none-limit-lost-in-derived-contexts': 'MISSED by C10 as built then (no container longer than the default limit of 1000); caught after adding 1000/1001/1500-element containers at top level and nested with None and larger limits',
    'C17-B4-attrs-takes-self-default-cached-per-class': 'MISSED by C17 as built then (takes_self factories did not depend on the instance); caught after deriving the default from another field',
    'C19-B4-failed-printer-disabled-for-the-type': 'first caught by C14 (later fault-free print differs); C19 itself MISSED it as built then (no type whose printer fails for some instances only); caught by C19 after adding one',
    'C19-B4b-resolved-printer-memo-misses-subclasses': 'first caught by C15 (history: print subclass, register base by name, print subclass); C19 itself MISSED it as built then (no registration between prints); caught by C19 after adding histories with registration operations',
    'C13-A4-thread-local-visited-set': 'first caught by C14 (print after an invalid-return ValueError); C13 itself MISSED it as built then; caught by C13 after adding the aborted-print probe',
    'C15-A5-superclass-query-ignores-object-and-abcs': 'MISSED by C15 as built then (object was never a registration target); caught after adding histories that register printers for object, each in a fork of its own',
    'C15-A5b-deferred-scan-in-registration-order-for-deep-mro': 'MISSED by C15 as built then (the fixed lattice is at most 4 classes deep; the change needs an MRO longer than the number of pending by-name registrations, 7 in a fresh process); caught after adding histories on random class hierarchies up to 18 deep (with per-history teardown of unresolved registrations)',
    'C13-A5-fallback-early-return-shared-object': 'first caught by C14 (visited-set trace after a contained fault); C13 itself MISSED it as built then (no object with a failing printer in its graphs); caught by C13 after adding a shared node kind whose printer raises',
    'C05-A5-fast-predicate-walks-into-always-break': 'claimed for C05; caught by C04 (an always_break rendered inside a flat group, layout not denoted). C05\'s own check stays silent BY DESIGN: it judges the line on which a flat group starts, and a flat group spanning a forced break is judged by the forcing clause of C04 (DESIGN 3/C05: "only the first line is judged")',
    'C02-A6-bulk-split-duplicates-word-at-exact-multiple': 'MISSED by C02 as built then (strings up to ~400 characters); caught after adding very long strings (255 ... 65536 characters) with every length residue modulo the line capacity',
    'C11-B6-container-doc-memo-by-id-ignores-depth': 'MISSED by C11 as built then (every container object occurred once); caught after letting random values reuse a finished container object at other nesting levels (aliasing)',
    'C11-B6b-per-call-container-memo-ignores-depth': 'MISSED by C11 as built then (no aliased containers); caught after the aliasing widening (same as C11-B6)',
    'C14-A6-scalar-fast-path-skips-containment': 'MISSED by C14 as built then (failing printers belonged to user classes only); caught after adding user printers registered for the built-in scalar and container types themselves (run in forked children)',
    'C07-A6-kwarg-comment-does-not-force-break': 'MISSED by C07 as built then (no field / keyword value that the printers show with an automatic comment); caught after adding functions and classes as field values',
    'C09-B6-notice-template-joined-with-user-comment': 'caught by C10 as built then only after format characters were added to its comment texts; MISSED by C09 and C10 as built then (comment texts without { } %; C09 never used max_seq_len); caught after adding such texts to both and an inertness-under-max_seq_len pass to C09',
    'C06-A6-force-break-estimate-off-by-one-element': 'MISSED by C06 as built then (the no-forced-break obligation covered sequences up to 20 elements); caught after extending it to the documented limit (shortest one-line form <= 150 columns, i.e. up to 50 elements) with sequences of exactly 49/50 elements',
    'C01-B7-numeric-bulk-path-prints-bare-nan-inf': 'MISSED by C01 as built then (big containers had mixed element types and no inf/nan members); caught after adding homogeneous sequences of 45 .. 10000 elements with special members (inf, nan, -0.0, huge ints, empty strings, ...)',
    'C20-A7-predicate-registry-move-to-front-unlocked': 'MISSED by C20 as built then (at most one predicate printer existed, and only in the scenario that registers it); caught after adding three predicate printers and scenario S15 (both threads print values dispatched through different predicates), _repr_pretty added to the shared-state functions',
    'C19-B7-layout-base-fast-path-skips-deferred-mro-walk': 'first caught by C15 (random hierarchies with multiple inheritance); C19 itself MISSED it as built then (no class with two bases whose first base has a pending by-name printer); caught by C19 after adding MPoint(MRec, tuple) / MMap(MRec, dict) / MList(MRec, list)',
    'C17-A7-identifier-doc-cache-keyed-by-name': 'MISSED by C17 as built then (all callables of one module had different __name__s); caught after adding callables with the same __name__ and different qualified names in one module',
    'C08-B7-namedtuple-detected-by-fields-attribute-only': 'MISSED by C08 as built then (no subclass carrying attributes that other protocols look for); caught after adding "ducky" subclasses (_fields, n_fields, _name_/_value_, zone, __attrs_attrs__)',
    'C18-A7-pformat-renderer-rstrips-whole-line': 'MISSED by C18 as built then (four fixed values without comments); caught after adding values with comments whose lines end in or consist of whitespace',
    'C11-B7-tuple-subclass-sole-argument-hugged': 'MISSED by C11 as built then (no call-style value with a container as sole argument other than the collections wrappers); caught after adding exceptions as container kinds (which also made the oracle distinguish set arguments: hugged by set-subclass printers only)',
    'C10-B7-counter-most-common-n-hides-truncation': 'MISSED by C10 as built then (Counter and deque were not among its containers); caught after adding both as call-style holders with their own reference',
    'C13-A8-commented-dict-value-rerendered-lazily': 'MISSED by C13 as built then (no comments anywhere in its graphs); caught after letting references carry comment() / trailing_comment() wrappers (the reference DFS looks through them)',
    'C03-B8-commented-dict-value-context-not-nested': 'first caught by C11 (depth cut differs); C03 itself MISSED it as built then (depth was never set); caught by C03 after holding depth / max_seq_len / sort_dict_keys fixed while the layout settings vary',
    'C19-A8-predicate-mru-hint-per-type': 'MISSED by C19 (and C15) as built then (every predicate depended on the type only); caught after adding two overlapping predicate printers whose predicates read instance state',
    'C04-B8-lookahead-skips-normalising-lazy-bodies': 'MISSED by C04 as built then - and HIDDEN by its lenient reading: a group laid out flat around a bare hardline was classified as the listed finding even when an always_break in the same lazily evaluated body would have been hoisted in front of that hardline. Caught after (a) the matcher rejects a flat group around an align/hang body that hoists an always_break and (b) a document family mixing hardline / always_break / breaks in such bodies was added',
    'C06-A8-string-width-measured-with-repr-quotes': 'MISSED by C06 as built then (strings mixing both quote kinds inside a container at exactly fitting width did not occur); caught after adding such quote-mix strings to the one-line values',
    'C14-B8-falsy-exception-skips-fallback': 'MISSED by C14 as built then (all 14 exception classes had truthy instances); caught after adding exceptions with __bool__ False, __len__ 0 and an __eq__ that equals everything',
    'C02-A8-cut-moves-back-past-combining-marks': 'MISSED by C02 as built then (no stacks of combining marks); caught after adding Zalgo-style strings, joiners, variation selectors and bidi marks (step budget turns the hang into a verdict)',
    'C18-B8-falsy-stream-falls-back-to-stdout': 'MISSED by C18 as built then (every stream was a StringIO); caught after rotating through a list-backed sink that is falsy while empty and a write-only always-falsy stream',
    'C09-A8-sole-argument-unwraps-one-comment-only': 'MISSED by C09 as built then (no depth limit in its configurations); caught after adding depth limits for values without commented dict keys',
    'C17-B8-negative-cache-of-types-without-predicate': 'first caught by C15 (print, register a predicate, print); C17 itself MISSED it as built then (extras always installed before the first print); caught by C17 after adding classes first printed before install_extras() (forked child)',
    'C14-A8-every-typeerror-treated-as-missing-parameter': 'MISSED by C14 as built then (the "does not support rendering trailing comments" warning was filtered everywhere because PNode printers legitimately cause it); caught after judging that warning wherever no such printer sits under a trailing comment',
    'C13-B8-deferred-supertype-printer-registered-unwrapped': 'MISSED by C13 as built then (no node printed through a by-name printer of its BASE class); caught after adding such a subclass as node kind',
    'C10-A9-dropped-count-with-thousands-separator': 'MISSED by C10 as built then (at most 500 elements were ever dropped); caught after adding containers of 3500 and 12345 elements, i.e. dropped counts of four and five digits',
    'C20-B9-predicate-lock-order-inversion': 'MISSED by C20 as built then (no value whose repr re-enters the package); caught after adding scenario S18 (the scheduler turns every module-level lock into a cooperative one and reports the cycle as a deadlock)',
    'C17-A9-argument-doc-memo-keyed-by-equality': 'MISSED by C17 as built then (arguments of one call were never equal-but-distinct across int/float/bool); caught after adding confusable argument groups',
    'C15-B9-reinstall-moves-dataclass-predicate-to-the-end': 'MISSED by C15 as built then (install_extras was not an operation of its histories); caught after adding all histories up to length 4 over {install_extras, register a competing predicate, print}',
    'C19-B9-thread-local-guard-not-reset-after-exception': 'first caught by C13 and C14 (aborted-print probes); C19 itself MISSED it as built then (no print in its histories ever raised); caught by C19 after adding an armable aborting printer',
    'C14-A9-traceback-used-as-format-string': 'MISSED by C14 as built then (exception messages without { } %); caught after putting format characters into every injected message',
    'C18-B9-is-registered-walks-mro-instead-of-dispatch': 'MISSED by C18 (and C15) as built then (no printer registered for an ABC with virtual subclasses); caught after adding ABC.register / __subclasshook__ classes whose __repr__ is pretty_repr',
    'C05-B9-contextual-str-result-skips-column-update': 'MISSED by C04-C06 as built then (contextual() occurred only through align / hang); caught after adding lazily produced text and documents (a "lazy" term kind) to the generators and the reference semantics',
    'C07-A10-midnight-datetime-drops-fold': 'MISSED by C07 as built then (no naive datetime at exactly midnight with fold=1); caught after adding such datetimes (the structural key already compared fold)',
    'C09-B10-user-comment-dropped-on-already-commented-doc': 'MISSED by C09 as built then (no leaf whose printer attaches a note of its own); caught after adding functions / classes as leaves, with the rule that a user comment replaces the note',
    'C16-A10-token-lookup-by-equality': 'MISSED by C16 as built then (non-token annotations were a CommentAnnotation and a tuple); caught after adding annotations equal to a token number (13, True, 3.0)',
    'C14-A10-fallback-through-predicate-printers': 'MISSED by C14 as built then (no predicate printer accepted the instances of the class-registered failing printers); caught after registering one',
    'C19-A10-pending-names-scanned-in-registration-order': 'first caught by C15 (random hierarchies); C19 itself MISSED it as built then (never two pending by-name ancestors); caught by C19 after adding Shape <- Polygon <- Square',
    'C13-B10-assoc-context-loses-visited-set': 'MISSED by C13 as built then (no printer used ctx.assoc()); caught after the user-object printer passes a value down with assoc()',
    'C20-B10-bounded-memo-check-then-lookup': 'MISSED by C20 as built then (no scenario in which one thread performs thousands of operations inside the window of the other). A first attempt - a 2100-distinct-word text printed under EVERY single-preemption schedule - took the quick tier from 2 to 25 minutes and hit the watchdog; caught after adding "heavy" scenarios: thread 0 is preempted only inside the string-measuring functions (escaped_len, str_to_lines, escape_str_for_quote, determine_quote_strategy), 400 schedules in the quick tier',
}
for name, note in NOTES.items():
    p = os.path.join(HOME, 'seeded', name, 'meta.json')
    if os.path.exists(p):
        m = json.load(open(p))
        m['first_result_before_strengthening'] = note
        json.dump(m, open(p, 'w'), indent=1)
        print('annotated', name)

import glob, re
for p in glob.glob(os.path.join(HOME, 'seeded', '*', 'meta.json')):
    m = json.load(open(p))
    name = m['name']
    mo = re.match(r'C\d+-[AB](\d*)b?-', name)
    rnd = mo.group(1) if mo else ''
    if rnd in ('2', '3'):
        m['origin'] = ('round %s: independent sub-agent in its own scratch worktree, given the property text plus a PROSE description of the kind of generated workload '
                       'it had to slip past (no file from /verif) - a deliberately stronger adversary than "property text only"' % rnd)
    elif rnd == '10':
        m['origin'] = ('round 10: as rounds 6-9 - independent sub-agent in its own scratch worktree, four property texts (pick two), rarity shown by its own random '
                       'differential test, one-line summaries of all ideas delivered so far ("do not repeat"), nothing about the checks; asked to finish within ~40 minutes')
    elif rnd == '9':
        m['origin'] = ('round 9: as rounds 6-8 - independent sub-agent in its own scratch worktree, four property texts (pick two), rarity shown by its own random '
                       'differential test, one-line summaries of all ideas delivered so far ("do not repeat"), nothing about the checks')
    elif rnd == '8':
        m['origin'] = ('round 8: as rounds 6-7 - independent sub-agent in its own scratch worktree, four property texts (pick two), rarity shown by its own random '
                       'differential test, one-line summaries of all ideas delivered so far ("do not repeat"), nothing about the checks')
    elif rnd == '7':
        m['origin'] = ('round 7: as round 6 - independent sub-agent in its own scratch worktree, four property texts (pick two), rarity shown by its own random '
                       'differential test, one-line summaries of the ideas already delivered ("do not repeat"), nothing about the checks')
    elif rnd == '6':
        m['origin'] = ('round 6: independent sub-agent in its own scratch worktree, given four property texts (pick two), the rarity requirement of round 5, and one-line '
                       'summaries of the ideas earlier seeders had already delivered for those properties ("do not repeat") - nothing about the checks')
    elif rnd == '5':
        m['origin'] = ('round 5: independent sub-agent in its own scratch worktree, given four property texts only (pick two), asked to prove rarity itself with a random '
                       'differential test of its own (clean vs changed copy, < 1 in 1000 random inputs differing)')
    elif rnd == '4':
        m['origin'] = 'round 4: independent sub-agent in its own scratch worktree, given four property texts only, asked for two cooperating edits or a multi-step call sequence'
    else:
        m['origin'] = 'round 1: independent sub-agent in its own scratch worktree, given only the text of the property'
    json.dump(m, open(p, 'w'), indent=1)
