#!/bin/bash
# usage: tools/run_all.sh quick|thorough [ids...]   - runs the checks one after another, one summary line each
HERE="$(cd "$(dirname "${BASH_SOURCE[0]}")/.." && pwd)"
cd "$HERE"
tier=$1; shift
ids="$@"
[ -z "$ids" ] && ids="C01 C02 C03 C04 C05 C06 C07 C08 C09 C10 C11 C12 C13 C14 C15 C16 C17 C18 C19 C20"
rc=0
for c in $ids; do
  out=$(./check $c $tier 2>&1); e=$?
  echo "$c exit=$e $(echo "$out" | tail -1)"
  echo "$out" | grep -e '^VIOLATION' -e '^INCONCLUSIVE' -e '^   key' | head -8
  [ $e -ne 0 ] && rc=1
done
exit $rc
