#!/venv/bin/python
"""Which statements of the package does the union of all quick tiers never execute?  (workload-gap finder, not a check)
usage: tools/linecov.py [ids...]   - runs the quick tiers with VERIF_LINECOV=1 and prints uncovered lines of the core modules."""
import ast, json, os, subprocess, sys, tempfile
HOME = os.path.dirname(os.path.dirname(os.path.abspath(__file__)))
ids = sys.argv[1:] or ['C%02d' % i for i in range(1, 21)]
cov_dir = os.path.join(tempfile.gettempdir(), 'verif-linecov')
env = dict(os.environ, VERIF_LINECOV='1')
for c in ids:
    subprocess.run([os.path.join(HOME, 'check'), c, 'quick'], env=env, stdout=subprocess.DEVNULL, stderr=subprocess.DEVNULL, cwd=HOME)
hit = set()
for f in os.listdir(cov_dir):
    for rel, line in json.load(open(os.path.join(cov_dir, f))):
        hit.add((rel, line))
CORE = ['prettyprinter.py', 'layout.py', 'doctypes.py', 'doc.py', 'render.py', 'color.py', 'pretty_stdlib.py', '__init__.py', 'utils.py', 'extras/dataclasses.py', 'extras/attrs.py']
for rel in CORE:
    path = os.path.join('/repo/prettyprinter', rel)
    tree = ast.parse(open(path).read())
    stmts = set()
    for fn in ast.walk(tree):
        if isinstance(fn, (ast.FunctionDef, ast.Lambda)):
            for node in ast.walk(fn):
                if isinstance(node, ast.stmt) and node is not fn and not isinstance(node, (ast.FunctionDef, ast.ClassDef, ast.Import, ast.ImportFrom)):
                    stmts.add(node.lineno)
    missed = sorted(l for l in stmts if (rel, l) not in hit)
    src = open(path).read().split('\n')
    print('== %s: %d of %d statements never executed' % (rel, len(missed), len(stmts)))
    for l in missed:
        print('   %4d  %s' % (l, src[l - 1].strip()[:110]))
