#!/venv/bin/python
"""Shrinks a C04/C05/C06 witness term while the same verdict persists (diagnostic aid, not part of any check).
usage: tools/shrink_term.py <replay.json>   (environment as set by ./check: PYTHONPATH=/repo:/verif)"""
import json, sys, os
sys.path.insert(0, os.path.dirname(os.path.dirname(os.path.abspath(__file__))))
sys.path.insert(0, os.environ.get('VERIF_REPO', '/repo'))
import prettyprinter.layout as L
from vlib import docs as D, refsem as R


def verdict(term, width, frac, strat):
    try:
        sdocs = list((L.layout_smart if strat == 'smart' else L.layout_fast)(D.build(term), width=width, ribbon_frac=frac))
    except Exception as e:
        return 'raised'
    st = R.Stream(sdocs)
    try:
        if R.Matcher(term, st, width, frac, strat == 'smart', strict=True).run():
            return 'strict'
        if R.Matcher(term, st, width, frac, strat == 'smart', strict=False).run():
            return 'lenient'
    except R.Budget:
        return 'budget'
    return 'rejected'


def variants(t):
    """smaller terms: replace one subterm by one of its children, by NIL, or drop a list item, or shorten a text"""
    if isinstance(t, str):
        if len(t) > 1:
            yield t[:len(t) // 2]
            yield t[:-1]
        return
    k = t[0]
    kids = []
    if k in ('cat', 'fill'):
        for i in range(len(t[1])):
            yield (k, t[1][:i] + t[1][i + 1:])
        for c in t[1]:
            yield c
        for i, c in enumerate(t[1]):
            for v in variants(c):
                yield (k, t[1][:i] + (v,) + t[1][i + 1:])
    elif k in ('nest', 'hang', 'ann'):
        yield t[2]
        for v in variants(t[2]):
            yield (k, t[1], v)
    elif k in ('group', 'ab', 'align', 'lazy'):
        yield t[1]
        for v in variants(t[1]):
            yield (k, v)
    elif k == 'fc':
        yield t[1]
        yield t[2]
        for v in variants(t[1]):
            yield (k, v, t[2])
        for v in variants(t[2]):
            yield (k, t[1], v)
    if k not in ('nil',):
        yield ('nil',)


def main():
    wit = json.load(open(sys.argv[1]))
    c = wit['case']
    term = D.from_json(c['term'])
    width, frac, strat = c['width'], c['ribbon_frac'], c['strategy']
    want = verdict(term, width, frac, strat)
    print('verdict', want, 'size', D.size(term))
    progress = True
    while progress:
        progress = False
        for v in variants(term):
            try:
                if verdict(v, width, frac, strat) == want:
                    term = v
                    progress = True
                    break
            except Exception:
                continue
    while width > 1 and verdict(term, width - 1, frac, strat) == want:
        width -= 1
    print('shrunk to size', D.size(term), 'width', width, 'frac', frac, strat)
    print(D.show(term))
    sdocs = list((L.layout_smart if strat == 'smart' else L.layout_fast)(D.build(term), width=width, ribbon_frac=frac))
    print(repr(R.Stream(sdocs).text()))
    print(sdocs)


main()
