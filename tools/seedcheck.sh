#!/bin/bash
# usage: tools/seedcheck.sh <worktree-id> <A|B> <seeded-name> <property> "<checks to run>"
# Confirms a sub-agent's change in its scratch worktree: demo passes on the clean tree, fails with the patch, pinned suite unchanged,
# then runs the named checks (quick) against the patched worktree and records everything under seeded/<seeded-name>/.
HERE="$(cd "$(dirname "${BASH_SOURCE[0]}")/.." && pwd)"
wt=${SEEDBASE:-/tmp/seed}/$1; var=$2; name=$3; prop=$4; checks="$5"
src=$wt/out/$var
dst=$HERE/seeded/$name
mkdir -p $dst
cd $wt || exit 2
git checkout -q -- . 
clean_demo=$( /venv/bin/python $src/demo.py >/dev/null 2>&1; echo $? )
git apply $src/patch.diff || { echo "patch does not apply"; exit 2; }
patched_demo=$( /venv/bin/python $src/demo.py >/dev/null 2>&1; echo $? )
suite=$( $HERE/tools/baseline.py $wt 2>&1 | tail -1 )
results=""
for c in $checks; do
  out=$(VERIF_REPO=$wt $HERE/check $c quick 2>&1); e=$?
  keys=$(echo "$out" | grep '^   key=' | sed 's/^   key=//; s/:.*//' | sort -u | tr '\n' ',' )
  results="$results $c:exit=$e:$keys"
  echo "   $c exit=$e keys=$keys"
done
git checkout -q -- .
cp $src/patch.diff $dst/patch.diff; cp $src/demo.py $dst/demo.py; cp $src/notes.txt $dst/notes.txt 2>/dev/null
echo "demo clean=$clean_demo patched=$patched_demo | suite: $suite |$results"
/venv/bin/python - "$dst" "$prop" "$clean_demo" "$patched_demo" "$suite" "$results" "$name" <<'P'
import json, sys, os
dst, prop, cd, pd, suite, results, name = sys.argv[1:8]
notes = open(os.path.join(dst, 'notes.txt')).read() if os.path.exists(os.path.join(dst, 'notes.txt')) else ''
meta = {'name': name, 'breaks_property': prop, 'origin': 'independent sub-agent given only the property text and a scratch worktree',
        'needs_to_manifest': notes.strip(),
        'confirmed': {'demo_exit_on_clean_tree': int(cd), 'demo_exit_with_patch': int(pd), 'pinned_suite_with_patch': suite},
        'checks_run_against_it (quick tier, VERIF_REPO=scratch worktree)': [r for r in results.split() if r]}
json.dump(meta, open(os.path.join(dst, 'meta.json'), 'w'), indent=1)
P
