#!/usr/bin/env python3-vt
import json, glob, os, sys, jsonschema
HOME = os.path.dirname(os.path.dirname(os.path.abspath(__file__)))
man = json.load(open(os.path.join(HOME, 'MANIFEST.json')))
jsonschema.validate(man, json.load(open('/root/.vp/MANIFEST.schema.json')))
es = json.load(open('/root/.vp/EVIDENCE.schema.json'))
bad = 0
for c in man['checks']:
    p = os.path.join(HOME, c['evidence_file'])
    if not os.path.exists(p):
        print('MISSING evidence', p); bad += 1; continue
    try:
        jsonschema.validate(json.load(open(p)), es)
    except Exception as e:
        print('INVALID', p, str(e)[:300]); bad += 1
ids = [json.loads(l)['id'] for l in open(os.path.join(HOME, 'properties.jsonl'))]
claimed = {c['property_id'] for c in man['checks']} | {n['property_id'] for n in man.get('not_applicable', [])}
for i in ids:
    if i not in claimed:
        print('property neither claimed nor not_applicable:', i); bad += 1
print('manifest ok; %d checks; problems: %d' % (len(man['checks']), bad))
sys.exit(1 if bad else 0)
