"""ANSI SGR state machine: decode(text) -> ([(char, state)], final_state); state = (fg, bg, bold, italic, underline),
fg/bg = (r, g, b) | ('idx', n) | None."""
import re

RESET = (None, None, False, False, False)
_SEQ = re.compile('\x1b\\[([0-9;]*)m')


class DecodeError(Exception):
    pass


def apply(state, params):
    fg, bg, bold, italic, underline = state
    i = 0
    if not params:
        params = [0]
    while i < len(params):
        p = params[i]
        if p == 0:
            fg, bg, bold, italic, underline = RESET
        elif p == 1:
            bold = True
        elif p == 3:
            italic = True
        elif p == 4:
            underline = True
        elif p == 22:
            bold = False
        elif p == 23:
            italic = False
        elif p == 24:
            underline = False
        elif p in (38, 48):
            if i + 1 < len(params) and params[i + 1] == 2 and i + 4 < len(params):
                col = (params[i + 2], params[i + 3], params[i + 4])
                i += 4
            elif i + 1 < len(params) and params[i + 1] == 5 and i + 2 < len(params):
                col = ('idx', params[i + 2])
                i += 2
            else:
                raise DecodeError('malformed extended color %r' % (params,))
            if p == 38:
                fg = col
            else:
                bg = col
        elif p == 39:
            fg = None
        elif p == 49:
            bg = None
        elif 30 <= p <= 37 or 90 <= p <= 97:
            fg = ('idx', p)
        elif 40 <= p <= 47 or 100 <= p <= 107:
            bg = ('idx', p)
        else:
            raise DecodeError('unknown SGR parameter %d' % p)
        i += 1
    return (fg, bg, bold, italic, underline)


def decode(text):
    out = []
    state = RESET
    pos = 0
    nseq = 0
    for m in _SEQ.finditer(text):
        for ch in text[pos:m.start()]:
            out.append((ch, state))
        params = [int(x) if x else 0 for x in m.group(1).split(';')] if m.group(1) else [0]
        state = apply(state, params)
        nseq += 1
        pos = m.end()
    for ch in text[pos:]:
        out.append((ch, state))
    if any(ch == '\x1b' for ch, _ in out):
        raise DecodeError('escape byte outside an SGR sequence')
    return out, state, nseq


def strip(text):
    return _SEQ.sub('', text)
