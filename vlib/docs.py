"""Document terms (our own tuples) -> real documents through the public combinators of prettyprinter.doc.

Terms:  'text' (plain str)  ('nil',) ('line',) ('softline',) ('hardline',)
        ('cat', (d..)) ('nest', i, d) ('group', d) ('ab', d) ('align', d) ('hang', i, d)
        ('ann', label, d) ('fc', when_broken, when_flat) ('fill', (d..))
        ('lazy', d): contextual(fn) whose fn returns d - a plain str when d is text, a document otherwise (evaluated at layout time, as align / hang bodies are)
Terms are hashable, JSON-able after to_json(), and never touch the package's classes, so the reference
semantics in refsem.py works on them independently of the implementation.
"""
import itertools
import random

from prettyprinter import doc as D


class Ann:
    """annotation labels that are falsy / unhashable / equal-but-distinct objects: 'ann' terms carry the label NAME, build() maps it"""
    OBJS = {'A': 'A', 'B': 'B', 'C': 'C', 'ZERO': 0, 'EMPTY': '', 'NONE': None, 'LIST': [1], 'DICT': {'k': 1}, 'EQ1': (1, 2), 'EQ2': (1, 2.0)}


def build(t, memo=None):
    """memo: dict - equal sub-terms then share ONE Doc object (as the printers' module-level constants do)"""
    if isinstance(t, str):
        return t
    if memo is not None:
        if t in memo:
            return memo[t]
        d = _build(t, memo)
        memo[t] = d
        return d
    return _build(t, None)


def _build(t, memo):
    build = lambda x: globals()['build'](x, memo)
    k = t[0]
    if k == 'nil':
        return D.NIL
    if k == 'line':
        return D.LINE
    if k == 'softline':
        return D.SOFTLINE
    if k == 'hardline':
        return D.HARDLINE
    if k == 'cat':
        return D.concat([build(c) for c in t[1]])
    if k == 'nest':
        return D.nest(t[1], build(t[2]))
    if k == 'group':
        return D.group(build(t[1]))
    if k == 'ab':
        return D.always_break(build(t[1]))
    if k == 'align':
        return D.align(build(t[1]))
    if k == 'lazy':
        inner = build(t[1])
        return D.contextual(lambda indent, column, page_width, ribbon_width, _inner=inner: _inner)
    if k == 'hang':
        return D.hang(t[1], build(t[2]))
    if k == 'ann':
        return D.annotate(Ann.OBJS.get(t[1], t[1]), build(t[2]))
    if k == 'fc':
        return D.flat_choice(when_broken=build(t[1]), when_flat=build(t[2]))
    if k == 'fill':
        return D.fill([build(c) for c in t[1]])
    raise ValueError(t)


def to_json(t):
    return t if isinstance(t, (str, int)) else [to_json(x) for x in t]


def from_json(j):
    if isinstance(j, str):
        return j
    k = j[0]
    if k in ('cat', 'fill'):
        return (k, tuple(from_json(c) for c in j[1]))
    if k in ('nest', 'hang'):
        return (k, j[1], from_json(j[2]))
    if k == 'ann':
        return (k, j[1], from_json(j[2]))
    if k == 'fc':
        return (k, from_json(j[1]), from_json(j[2]))
    if k in ('group', 'ab', 'align', 'lazy'):
        return (k, from_json(j[1]))
    return (k,)


def show(t):
    if isinstance(t, str):
        return repr(t)
    k = t[0]
    if k in ('nil', 'line', 'softline', 'hardline'):
        return k.upper()
    if k in ('cat', 'fill'):
        return '%s([%s])' % ('concat' if k == 'cat' else 'fill', ', '.join(show(c) for c in t[1]))
    if k in ('nest', 'hang'):
        return '%s(%d, %s)' % (k, t[1], show(t[2]))
    if k == 'ann':
        return 'annotate(%r, %s)' % (t[1], show(t[2]))
    if k == 'fc':
        return 'flat_choice(when_broken=%s, when_flat=%s)' % (show(t[1]), show(t[2]))
    return '%s(%s)' % ({'ab': 'always_break', 'lazy': 'contextual(lambda *a: '}.get(k, k), show(t[1]) + (')' if k == 'lazy' else ''))


def size(t):
    if isinstance(t, str):
        return 1
    k = t[0]
    if k in ('cat', 'fill'):
        return 1 + sum(size(c) for c in t[1])
    if k in ('nest', 'hang', 'ann'):
        return 1 + size(t[2])
    if k == 'fc':
        return 1 + size(t[1]) + size(t[2])
    if k in ('group', 'ab', 'align', 'lazy'):
        return 1 + size(t[1])
    return 1


def children(t):
    if isinstance(t, str):
        return ()
    k = t[0]
    if k in ('cat', 'fill'):
        return t[1]
    if k in ('nest', 'hang', 'ann'):
        return (t[2],)
    if k == 'fc':
        return (t[1], t[2])
    if k in ('group', 'ab', 'align', 'lazy'):
        return (t[1],)
    return ()


def subterms(t):
    yield t
    for c in children(t):
        yield from subterms(c)


def contains(t, kinds):
    return any((not isinstance(s, str)) and s[0] in kinds for s in subterms(t))


FULL_LEAVES = ('a', 'bb', ('line',), ('softline',), ('hardline',))
EXTRA_LEAVES = ('', ('nil',), ' ')
CLASSIC_LEAVES = ('a', 'bb', ('line',), ('softline',), ('hardline',))


def enum_terms(n, leaves, classic=False, _memo=None):
    """All terms with exactly n nodes."""
    if _memo is None:
        _memo = {}
    key = n
    if key in _memo:
        return _memo[key]
    out = []
    if n == 1:
        out.extend(leaves)
    else:
        for c in enum_terms(n - 1, leaves, classic, _memo):
            out.append(('nest', 2, c))
            out.append(('group', c))
            out.append(('ab', c))
            out.append(('align', c))
            out.append(('ann', 'A', c))
            if not classic:
                out.append(('hang', 2, c))
        arities = (2, 3)
        for ar in arities:
            for parts in compositions(n - 1, ar):
                for combo in itertools.product(*[enum_terms(p, leaves, classic, _memo) for p in parts]):
                    out.append(('cat', tuple(combo)))
                    if not classic and ar == 3:
                        out.append(('fill', tuple(combo)))
                    if not classic and ar == 2:
                        out.append(('fc', combo[0], combo[1]))
    _memo[key] = out
    return out


def compositions(m, k):
    if k == 1:
        if m >= 1:
            yield (m,)
        return
    for first in range(1, m - k + 2):
        for rest in compositions(m - first, k - 1):
            yield (first,) + rest


def rand_term(rng, depth=6, classic=False, labels=('A', 'B', 'C', 'ZERO', 'EMPTY', 'NONE', 'LIST', 'EQ1', 'EQ2')):
    if depth <= 0 or rng.random() < 0.25:
        c = rng.random()
        if c < 0.45:
            text = rng.choice(['a', 'bb', 'ccc', 'dddd', 'x' * rng.randint(1, 12), ' ', '', 'y' * rng.randint(13, 45), '  ', 'a b'])
            if rng.random() < 0.08:
                return ('lazy', text)       # the same text, produced by a contextual function at layout time
            return text
        if c < 0.65:
            return ('line',)
        if c < 0.8:
            return ('softline',)
        if c < 0.9:
            return ('hardline',)
        return ('nil',)
    kinds = ['cat', 'cat', 'cat', 'group', 'group', 'nest', 'ab', 'align', 'ann']
    if not classic:
        kinds += ['hang', 'fc', 'fill', 'fill']
    k = rng.choice(kinds)
    if k == 'align' and rng.random() < 0.15:
        return ('lazy', rand_term(rng, depth - 1, classic, labels))
    if k == 'cat':
        return ('cat', tuple(rand_term(rng, depth - 1, classic, labels) for _ in range(rng.choice([0, 1, 2, 2, 3, 3, 4, 5, 8]))))
    if k == 'fill':
        n = rng.choice([0, 1, 2, 3, 3, 4, 5, 6, 7, 9])
        items = []
        for i in range(n):
            if i % 2 == 0 or rng.random() < 0.3:
                items.append(rand_term(rng, depth - 2, classic, labels))
            else:
                items.append(rng.choice([('line',), ('softline',), ('fc', ('hardline',), '  ')]))
        return ('fill', tuple(items))
    if k == 'nest':
        return ('nest', rng.choice([1, 2, 4, 0, 3, 7, 8, -1, -2]), rand_term(rng, depth - 1, classic, labels))
    if k == 'hang':
        return ('hang', rng.choice([1, 2, 4, 0, 7]), rand_term(rng, depth - 1, classic, labels))
    if k == 'ann':
        return ('ann', rng.choice(labels), rand_term(rng, depth - 1, classic, labels))
    if k == 'fc':
        return ('fc', rand_term(rng, depth - 1, classic, labels), rand_term(rng, depth - 1, classic, labels))
    return (k, rand_term(rng, depth - 1, classic, labels))


def long_tail_terms(rng):
    """documents in which MANY pending fragments follow a group on its line (long concat tails, deep closing brackets):
    the engine's look-ahead has to scan far past the group"""
    inner = ('group', ('cat', ('aaa', ('line',), 'bbb')))
    n = rng.choice([5, 20, 33, 40, 64, 100])
    kind = rng.randrange(5)
    if kind == 0:
        return ('cat', (inner,) + tuple(rng.choice(['.', 'x', ',', 'yy']) for _ in range(n)))
    if kind == 1:
        t = inner
        for _ in range(n):
            t = ('cat', ('(', t, ')'))
        return t
    if kind == 2:
        t = inner
        for i in range(n):
            t = ('nest', 1, ('cat', ('[', t, ']'))) if i % 2 else ('group', ('cat', ('{', ('softline',), t, ('softline',), '}')))
        return t
    if kind == 3:
        return ('cat', ('head ', ('nest', 4, ('cat', (('group', ('cat', ('k', ('line',), 'v'))),) + tuple('z' for _ in range(n)) + (('line',), 'tail')))))
    return ('cat', tuple(('ann', 'A', ('group', ('cat', ('p', ('softline',), 'q')))) if i % 7 == 0 else 'w' for i in range(n)))


def lazy_body_terms(rng):
    """documents in which a lazily evaluated body (align / hang) mixes forced breaks, always_break and ordinary breaks in varying ORDER, inside a
    group or fill item with text before and after: what the look-ahead sees of such a body (normalised: always_break hoisted to its start) decides
    the enclosing scope"""
    word = lambda: rng.choice(['a', 'bb', 'first,', 'x', '# args', 'second'])
    def ab_part():
        return ('ab', rng.choice([word(), ('cat', (word(), ('line',), word())), ('nil',), ('group', ('cat', (word(), ('softline',), word())))]))
    parts = [word(), rng.choice([('hardline',), ('line',), ('softline',), ('hardline',)]), ab_part(), rng.choice([('line',), ('softline',), word()]), word()]
    if rng.random() < 0.6:
        rng.shuffle(parts)
    parts = parts[:rng.randint(2, 5)]
    if rng.random() < 0.3:
        parts = [p if not (isinstance(p, tuple) and p[0] == 'ab') or rng.random() < 0.5 else ('ann', 'A', p) for p in parts]
    body = ('cat', tuple(parts))
    lazy = rng.choice([('align', body), ('hang', rng.choice([0, 2, 4]), body), ('nest', 0, body), ('align', ('nest', 2, body)), ('align', ('group', body))])
    pre = rng.choice([(), ('begin', ('line',)), (word(),), (word(), ('softline',))])
    post = rng.choice([(), (('line',), '-> result'), (('softline',), word()), (('line',), word(), ('line',), word())])
    inner = ('cat', pre + (lazy,) + post)
    shape = rng.randrange(5)
    if shape == 0:
        return ('group', inner)
    if shape == 1:
        return ('fill', (word(), ('line',), inner, ('line',), word()))
    if shape == 2:
        return ('cat', ('head', ('nest', 4, ('cat', (('line',), ('group', inner))))))
    if shape == 3:
        return ('group', ('cat', ('[', ('group', inner), ('softline',), ']')))
    return ('fill', (inner, ('softline',), word(), ('line',), ('group', inner)))


def flat_width(t):
    """width of the term laid out flat (None if it contains a forced newline)"""
    if isinstance(t, str):
        return len(t)
    k = t[0]
    if k == 'nil' or k == 'softline':
        return 0
    if k == 'line':
        return 1
    if k == 'hardline':
        return None
    if k == 'fc':
        return flat_width(t[2])
    tot = 0
    for c in children(t):
        w = flat_width(c)
        if w is None:
            return None
        tot += w
    return tot


def interesting_widths(t):
    ws = set()
    for s in subterms(t):
        if not isinstance(s, str) and s[0] == 'group':
            w = flat_width(s[1])
            if w is not None:
                ws.update((w - 1, w, w + 1, w + 2, w + 4))
    w = flat_width(t)
    if w is not None:
        ws.update((w - 1, w, w + 1))
    return sorted(x for x in ws if 1 <= x <= 120)
