"""Runner: shards a check over worker subprocesses, merges what the monitors
observed, classifies violations against KNOWN_FINDINGS.txt, writes evidence.

  python -m vlib.runner <ID> quick|thorough
  python -m vlib.runner <ID> --replay <file>
  python -m vlib.runner <ID> --worker <tier> <seed> <k> <n> <outfile>     (internal)

Exit codes: 0 held on what was observed (known findings are printed),
1 violation (VIOLATION line with a replay file), 2 inconclusive.
"""
import hashlib
import importlib
import json
import os
import pickle
import subprocess
import sys
import tempfile
import threading
import time
import traceback
from collections import Counter

HOME = os.environ.get('VERIF_HOME') or os.path.dirname(os.path.dirname(os.path.abspath(__file__)))
REPO = os.environ.get('VERIF_REPO', '/repo')
NCPU = int(os.environ.get('VERIF_JOBS', '0')) or min(16, os.cpu_count() or 1)


class Shard:
    """What one worker observed. Everything is merged by the parent."""

    def __init__(self, tier, seed, k, n):
        self.tier, self.seed, self.k, self.n = tier, seed, k, n
        self.evaluations = 0
        self.nontrivial = set()      # hashes of distinct non-trivial cases
        self.counters = Counter()    # monitor counters (summed)
        self.sets = {}               # name -> set (unioned), for "distinct X seen"
        self.violations = []         # dicts: key, what, case
        self.samples = []
        self.inconclusive = []       # reasons
        self.notes = {}              # name -> value (last wins), free form

    # -- helpers used by checks -------------------------------------------
    def mine(self, index):
        return index % self.n == self.k

    def case(self, canon, nontrivial=True):
        self.evaluations += 1
        if nontrivial:
            self.nontrivial.add(h64(canon))

    def see(self, name, item):
        self.sets.setdefault(name, set()).add(item)

    def violation(self, key, what, case):
        # keep at most a few witnesses per mechanism key, but count all
        self.counters['violations:' + key] += 1
        if sum(1 for v in self.violations if v['key'] == key) < 5:
            self.violations.append({'key': key, 'what': what, 'case': case})

    def sample(self, item, limit=3):
        if len(self.samples) < limit:
            self.samples.append(item)


def h64(obj):
    if not isinstance(obj, (bytes, str)):
        obj = repr(obj)
    if isinstance(obj, str):
        obj = obj.encode('utf-8', 'surrogatepass')
    return int.from_bytes(hashlib.blake2b(obj, digest_size=8).digest(), 'big')


def load_known():
    """finding: property=C04 key=<key> <text>   |   fixed: property=C04 <commit> <text>"""
    findings, fixed = {}, []
    path = os.path.join(HOME, 'KNOWN_FINDINGS.txt')
    if os.path.exists(path):
        for line in open(path):
            line = line.strip()
            if line.startswith('finding:'):
                parts = line.split(None, 3)
                pid = parts[1].split('=', 1)[1]
                key = parts[2].split('=', 1)[1]
                findings[(pid, key)] = parts[3] if len(parts) > 3 else ''
            elif line.startswith('fixed:'):
                fixed.append(line)
    return findings, fixed


def module_for(pid):
    return importlib.import_module('vlib.checks.' + pid.lower())


def assert_tree():
    import prettyprinter
    f = os.path.realpath(prettyprinter.__file__)
    want = os.path.realpath(REPO)
    if not f.startswith(want + os.sep):
        print('INCONCLUSIVE: prettyprinter imported from %s, not from %s' % (f, want))
        sys.exit(2)


def worker_main(pid, tier, seed, k, n, outfile):
    assert_tree()
    mod = module_for(pid)
    sh = Shard(tier, int(seed), int(k), int(n))
    t0 = time.time()
    entered = {}
    lines = set()
    try:
        if getattr(mod, 'COUNT_ENTRIES', True):
            # reach evidence: which functions of the package this shard's workload entered (PY_START events, tool id 1)
            import prettyprinter
            pkg = os.path.dirname(os.path.abspath(prettyprinter.__file__)) + os.sep
            mon = sys.monitoring
            mon.use_tool_id(1, 'verif-entries')

            def on_start(code, offset):
                if not code.co_filename.startswith(pkg):
                    return mon.DISABLE
                q = os.path.basename(code.co_filename)[:-3] + '.' + code.co_qualname
                entered[q] = entered.get(q, 0) + 1
                return mon.DISABLE          # the set of entered functions is what is needed: first entry only, no further cost

            mon.register_callback(1, mon.events.PY_START, on_start)
            events = mon.events.PY_START
            if os.environ.get('VERIF_LINECOV'):
                # optional line coverage of the package under this check's workload (first hit only, then DISABLEd)
                def on_line(code, line):
                    if code.co_filename.startswith(pkg):
                        lines.add((os.path.relpath(code.co_filename, pkg), line))
                    return mon.DISABLE
                mon.register_callback(1, mon.events.LINE, on_line)
                events |= mon.events.LINE
            mon.set_events(1, events)
        mod.run_shard(sh)
    except BaseException:
        sh.inconclusive.append('worker %s/%s crashed: %s' % (k, n, traceback.format_exc()[-1500:]))
    finally:
        if entered:
            try:
                sys.monitoring.set_events(1, 0)
            except Exception:
                pass
            sh.sets['package functions entered'] = set(entered)
            if lines:
                sh.sets['package lines executed'] = lines
    sh.notes['wall_s_%s' % k] = round(time.time() - t0, 2)
    with open(outfile, 'wb') as f:
        pickle.dump(sh, f)


def run_workers(pid, tier, seed, nshards, timeout, env_extra):
    tmpdir = tempfile.mkdtemp(prefix='verif-%s-' % pid)
    env = dict(os.environ)
    env.update(env_extra or {})
    results = [None] * nshards
    sem = threading.Semaphore(NCPU)

    def one(k):
        out = os.path.join(tmpdir, 'shard%d.pkl' % k)
        cmd = [sys.executable, '-X', 'faulthandler', '-m', 'vlib.runner', pid, '--worker',
               tier, str(seed), str(k), str(nshards), out]
        with sem:
            try:
                p = subprocess.run(cmd, env=env, timeout=timeout, stdout=subprocess.PIPE,
                                   stderr=subprocess.STDOUT, cwd=HOME)
                tail = p.stdout.decode('utf-8', 'replace')[-2000:]
                if os.path.exists(out):
                    with open(out, 'rb') as f:
                        results[k] = pickle.load(f)
                    if p.returncode != 0:
                        results[k].inconclusive.append('worker %d exit %s: %s' % (k, p.returncode, tail))
                else:
                    sh = Shard(tier, seed, k, nshards)
                    sh.inconclusive.append('worker %d produced no result (exit %s): %s' % (k, p.returncode, tail))
                    results[k] = sh
            except subprocess.TimeoutExpired:
                sh = Shard(tier, seed, k, nshards)
                sh.inconclusive.append('worker %d exceeded the %ss watchdog' % (k, timeout))
                results[k] = sh
            finally:
                try:
                    os.remove(out)
                except OSError:
                    pass

    threads = [threading.Thread(target=one, args=(k,)) for k in range(nshards)]
    for t in threads:
        t.start()
    for t in threads:
        t.join()
    try:
        os.rmdir(tmpdir)
    except OSError:
        pass
    return results


def merge(shards):
    m = Shard(shards[0].tier, shards[0].seed, 0, 1)
    for s in shards:
        m.evaluations += s.evaluations
        m.nontrivial |= s.nontrivial
        m.counters.update(s.counters)
        for name, st in s.sets.items():
            m.sets.setdefault(name, set()).update(st)
        m.violations.extend(s.violations)
        for x in s.samples:
            if len(m.samples) < 6:
                m.samples.append(x)
        m.inconclusive.extend(s.inconclusive)
        m.notes.update(s.notes)
    return m


def jsonable(x, depth=0):
    if depth > 80:
        return repr(x)
    if isinstance(x, (str, int, float, bool)) or x is None:
        return x
    if isinstance(x, bytes):
        return {'bytes': x.decode('latin-1')}
    if isinstance(x, dict):
        return {str(k): jsonable(v, depth + 1) for k, v in x.items()}
    if isinstance(x, (list, tuple)):
        return [jsonable(v, depth + 1) for v in x]
    if isinstance(x, (set, frozenset)):
        return sorted((jsonable(v, depth + 1) for v in x), key=repr)
    return repr(x)


def main(argv):
    if len(argv) < 2:
        print(__doc__)
        return 2
    pid = argv[0].upper()
    if argv[1] == '--worker':
        worker_main(pid, *argv[2:7])
        return 0
    mod = module_for(pid)
    if argv[1] == '--replay':
        assert_tree()
        wit = json.load(open(argv[2]))
        ok = mod.replay(wit)
        return 0 if ok else 1
    tier = argv[1]
    if tier not in ('quick', 'thorough'):
        print('tier must be quick or thorough')
        return 2
    seed = int(os.environ.get('VERIF_SEED', '0'))
    t0 = time.time()
    nshards = getattr(mod, 'NSHARDS', {}).get(tier, NCPU)
    timeout = getattr(mod, 'WATCHDOG', {}).get(tier, 900 if tier == 'quick' else 7200)
    shards = run_workers(pid, tier, seed, nshards, timeout, getattr(mod, 'ENV', None))
    m = merge(shards)
    anchors = getattr(mod, 'ANCHORS', None)
    if anchors:
        seen = m.sets.get('package functions entered', set())
        missing = [a for a in anchors if a not in seen]
        if missing:
            m.inconclusive.append('anchored functions never entered by the workload: %s' % missing)
        m.notes['anchored functions entered'] = [a for a in anchors if a in seen]
    if hasattr(mod, 'finalize'):
        try:
            mod.finalize(m)
        except Exception:
            m.inconclusive.append('finalize crashed: ' + traceback.format_exc()[-1500:])
    findings, fixed = load_known()
    unknown, known = [], {}
    for v in m.violations:
        if (pid, v['key']) in findings:
            known.setdefault(v['key'], []).append(v)
        else:
            unknown.append(v)
    for key, vs in sorted(known.items()):
        n = m.counters.get('violations:' + key, len(vs))
        print('KNOWN-FINDING: property=%s %s: %s [%d witnesses this run, e.g. %s]' % (
            pid, key, findings[(pid, key)], n, json.dumps(jsonable(vs[0]['case']))[:300]))
    replay_paths = []
    if unknown:
        rdir = os.path.join(HOME, 'replay', pid)
        if os.path.realpath(REPO) != '/repo':
            rdir = os.path.join(tempfile.gettempdir(), 'verif-replay-scratch', pid)
        os.makedirs(rdir, exist_ok=True)
        seen_keys = Counter()
        for v in unknown:
            seen_keys[v['key']] += 1
            if seen_keys[v['key']] > 3:
                continue
            body = json.dumps(jsonable({'property': pid, 'key': v['key'], 'what': v['what'],
                                        'case': v['case'], 'tier': tier, 'seed': seed}), indent=1)
            name = '%s-%016x.json' % (v['key'].replace('/', '_')[:60], h64(body))
            path = os.path.join(rdir, name)
            with open(path, 'w') as f:
                f.write(body)
            replay_paths.append(path)
            print('VIOLATION property=%s replay=%s' % (pid, path))
            print('   key=%s: %s' % (v['key'], str(v['what'])[:600]))
    if os.environ.get('VERIF_LINECOV') and m.sets.get('package lines executed'):
        cov_dir = os.path.join(tempfile.gettempdir(), 'verif-linecov')
        os.makedirs(cov_dir, exist_ok=True)
        with open(os.path.join(cov_dir, pid + '.json'), 'w') as f:
            json.dump(sorted(m.sets.pop('package lines executed')), f)
    wall = time.time() - t0
    verdict = 'violated' if unknown else ('inconclusive' if m.inconclusive else 'held')
    level = getattr(mod, 'LEVEL', 'exploration')
    coverage = {
        'evaluations': m.evaluations,
        'distinct_nontrivial': len(m.nontrivial),
        'rule': getattr(mod, 'RULE', ''),
        'samples': jsonable(m.samples) or ['(none)'],
        'exhaustive': bool(getattr(mod, 'EXHAUSTIVE', {}).get(tier, False)),
        'monitor_counters': {k: v for k, v in sorted(m.counters.items())},
        'distinct_observed': {k: len(v) for k, v in sorted(m.sets.items())},
        'observed_small_sets': {k: sorted(map(str, v))[:60] for k, v in sorted(m.sets.items()) if len(v) <= 60},
        'notes': jsonable(m.notes),
        'verdict': verdict,
        'known_findings_met': {k: m.counters.get('violations:' + k, len(v)) for k, v in known.items()},
        'inconclusive_reasons': m.inconclusive[:10],
        'tree_under_test': REPO,
        'workers': nshards,
    }
    ev = {
        'property_id': pid, 'tier': tier, 'seed': seed, 'level': level,
        'coverage': coverage,
        'assumptions': list(getattr(mod, 'ASSUMPTIONS', [])),
        'wall_s': round(wall, 2),
        'violations': len(unknown),
    }
    edir = os.path.join(HOME, 'evidence')
    if os.path.realpath(REPO) != '/repo':
        # scratch copies (mutation self-tests) never overwrite the committed evidence
        edir = os.path.join(tempfile.gettempdir(), 'verif-evidence-scratch')
    os.makedirs(edir, exist_ok=True)
    with open(os.path.join(edir, pid + '.json'), 'w') as f:
        json.dump(ev, f, indent=1, sort_keys=True)
        f.write('\n')
    print('%s %s seed=%d: %s; %d evaluations, %d distinct non-trivial, %.1fs' % (
        pid, tier, seed, verdict, m.evaluations, len(m.nontrivial), wall))
    if unknown:
        return 1
    if m.inconclusive:
        for r in m.inconclusive[:5]:
            print('INCONCLUSIVE property=%s %s' % (pid, str(r)[:800]))
        return 2
    return 0



def fork_call(func, arg, timeout=600):
    """Runs func(arg) in a forked child (fresh copy of the pristine process state) and returns its pickled result.
    Returns ('ok', result) | ('timeout', None) | ('crash', text)."""
    import select
    import signal
    r, w = os.pipe()
    pid = os.fork()
    if pid == 0:
        os.close(r)
        code = 0
        try:
            try:
                payload = pickle.dumps(('ok', func(arg)))
            except BaseException:
                payload = pickle.dumps(('crash', traceback.format_exc()[-2000:]))
            with os.fdopen(w, 'wb') as f:
                f.write(payload)
        except BaseException:
            code = 1
        finally:
            os._exit(code)
    os.close(w)
    chunks = []
    deadline = time.time() + timeout
    with os.fdopen(r, 'rb') as f:
        while True:
            left = deadline - time.time()
            if left <= 0:
                try:
                    os.kill(pid, signal.SIGKILL)
                except OSError:
                    pass
                os.waitpid(pid, 0)
                return ('timeout', None)
            ready, _, _ = select.select([f], [], [], min(left, 5))
            if ready:
                b = os.read(f.fileno(), 1 << 20)
                if not b:
                    break
                chunks.append(b)
    os.waitpid(pid, 0)
    data = b''.join(chunks)
    if not data:
        return ('crash', 'child produced no output')
    try:
        return pickle.loads(data)
    except Exception as e:
        return ('crash', 'unpicklable child result: %r' % (e,))


if __name__ == '__main__':
    sys.exit(main(sys.argv[1:]))
