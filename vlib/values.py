"""Value recipes (JSON-able terms), builders, generators, canonical form, eval oracle.

A recipe is a list:  ['int', n] ['float', 'repr'] ['bool', b] ['none'] ['ellipsis']
['str', s] ['bytes', latin1-text] ['list', [r..]] ['tuple', [r..]] ['set', [r..]]
['frozenset', [r..]] ['dict', [[rk, rv]..]]  and the wrappers
['comment', r, text] ['tcomment', r, text] ['sub', clsname, r]  (see build()).
Replay files carry recipes, so every case can be rebuilt exactly.
"""
import ast
import collections
import json
import itertools
import math
import random

from .runner import h64

# --------------------------------------------------------------------- leaves
INT_LEAVES = [0, -1, 10 ** 30]
FLOAT_LEAVES = ['1.5', '-0.0', '0.0', 'inf', '-inf', 'nan', '1e+300', '5e-324']
FLOAT_EXTRA = ['1e+22', '1.5e-07', '-1e+16', '123456789.12345678', '2.220446049250313e-16', '-inf', '9007199254740993.0']
STR_LEAVES = ['', 'a', "'", '"', '\\', ' ', '\n', 'é', '\x00', 'a' * 30, 'lorem ipsum ' * 3]
BYTES_LEAVES = ['', 'a', "'", '"', '\\', ' ', '\n', '\xe9', '\x00', 'a' * 30, 'lorem ipsum ' * 3]


def leaf_recipes(small=False):
    out = [['int', n] for n in INT_LEAVES]
    out += [['float', f] for f in FLOAT_LEAVES]
    out += [['bool', True], ['bool', False], ['none'], ['ellipsis']]
    strs = STR_LEAVES if not small else ['', 'a', "'", '\n', 'a' * 30]
    byts = BYTES_LEAVES if not small else ['', 'a', '"', 'a' * 30]
    out += [['str', s] for s in strs]
    out += [['bytes', s] for s in byts]
    return out


CONTAINERS = ['list', 'tuple', 'set', 'frozenset']
HASHABLE_KINDS = {'int', 'float', 'bool', 'none', 'ellipsis', 'str', 'bytes', 'tuple', 'frozenset'}


def hashable(r):
    k = r[0]
    if k in ('comment', 'tcomment'):
        return False
    if k == 'sub':
        return hashable(r[2])
    if k not in HASHABLE_KINDS:
        return False
    if k in ('tuple', 'frozenset'):
        return all(hashable(c) for c in r[1])
    return True


def size(r):
    k = r[0]
    if k in CONTAINERS:
        return 1 + sum(size(c) for c in r[1])
    if k == 'dict':
        return 1 + sum(size(a) + size(b) for a, b in r[1])
    if k in ('comment', 'tcomment'):
        return size(r[1])
    if k == 'sub':
        return size(r[2])
    return 1


def trees(n, leaves):
    """All recipes with exactly n nodes (containers and leaves count one each)."""
    memo = {}

    def exact(m):
        if m in memo:
            return memo[m]
        out = []
        if m == 1:
            out.extend(leaves)
            out.extend([[c, []] for c in CONTAINERS])
            out.append(['dict', []])
        else:
            # containers with children whose sizes sum to m-1
            for parts in compositions(m - 1):
                for combo in itertools.product(*[exact(p) for p in parts]):
                    combo = list(combo)
                    out.append(['list', combo])
                    out.append(['tuple', combo])
                    if all(hashable(c) for c in combo):
                        out.append(['set', combo])
                        out.append(['frozenset', combo])
            # dicts: pairs; each pair consumes >= 2 nodes
            for parts in compositions(m - 1):
                if len(parts) % 2:
                    continue
                for combo in itertools.product(*[exact(p) for p in parts]):
                    pairs = [[combo[i], combo[i + 1]] for i in range(0, len(combo), 2)]
                    if all(hashable(k) for k, _ in pairs):
                        out.append(['dict', pairs])
        memo[m] = out
        return out

    return exact(n)


def compositions(m):
    """ordered tuples of positive ints summing to m"""
    if m == 0:
        return
    for first in range(1, m + 1):
        if first == m:
            yield (m,)
        else:
            for rest in compositions(m - first):
                yield (first,) + rest


# ------------------------------------------------------------------- building
class BuildEnv:
    """Holds the classes recipes may refer to ('sub' wrappers) and the comment functions."""

    def __init__(self, classes=None, share=None):
        self.classes = classes or {}
        # share: a dict -> structurally equal container recipes are built ONCE and the same object is used at every place
        # (aliasing: the same list / dict / tuple object at several positions and nesting levels of one value)
        self.share = share


def build(r, env=None):
    k = r[0]
    memo = getattr(env, 'share', None)
    if memo is not None and k in ('list', 'tuple', 'dict', 'set', 'frozenset') and r[1]:
        key = json.dumps(r, sort_keys=True)
        if key not in memo:
            memo[key] = _build(r, env)
        return memo[key]
    return _build(r, env)


def alias_recipe(r, rng):
    """returns a copy of recipe r in which one non-empty container sub-recipe occurs a second time, inside a list or as a dict value at another
    place (build with BuildEnv(share={}) to get the same object at both places), or None if r has no suitable places"""
    r = json.loads(json.dumps(r))
    nodes = []

    def walk(n, depth):
        if n[0] in ('list', 'tuple', 'set', 'frozenset', 'dict'):
            nodes.append((n, depth))
            for c in n[1]:
                if n[0] == 'dict':
                    walk(c[0], depth + 1)
                    walk(c[1], depth + 1)
                else:
                    walk(c, depth + 1)
        elif n[0] in ('comment', 'tcomment'):
            walk(n[1], depth)
    walk(r, 0)
    sources = [(n, d) for n, d in nodes if n[1]]
    targets = [(n, d) for n, d in nodes if n[0] in ('list', 'dict')]
    if not sources or not targets:
        return None
    src, ds = rng.choice(sources)
    better = [(n, d) for n, d in targets if d + 1 != ds and n is not src]
    tgt, dt = rng.choice(better or targets)
    copy = json.loads(json.dumps(src))
    if tgt[0] == 'list':
        tgt[1].insert(rng.randint(0, len(tgt[1])), copy)
    else:
        tgt[1].append([['str', 'alias%d' % rng.randint(0, 9)], copy])
    return r


IDENTS = {'print': print, 'len': len, 'deque': collections.deque, 'OrderedDict': collections.OrderedDict}
# the end-of-line note the bundled printers attach to such values on their own
IDENT_NOTES = {'print': 'built-in function', 'len': 'built-in function', 'deque': 'class', 'OrderedDict': 'class'}


def _build(r, env=None):
    k = r[0]
    if k == 'ident':
        return IDENTS[r[1]]
    if k == 'int':
        return int(r[1])
    if k == 'float':
        return float(r[1])
    if k == 'bool':
        return bool(r[1])
    if k == 'none':
        return None
    if k == 'ellipsis':
        return Ellipsis
    if k == 'str':
        return r[1]
    if k == 'bytes':
        return r[1].encode('latin-1')
    if k == 'list':
        return [build(c, env) for c in r[1]]
    if k == 'tuple':
        return tuple(build(c, env) for c in r[1])
    if k == 'set':
        return set(build(c, env) for c in r[1])
    if k == 'frozenset':
        return frozenset(build(c, env) for c in r[1])
    if k == 'dict':
        return {build(a, env): build(b, env) for a, b in r[1]}
    if k == 'comment':
        import prettyprinter
        return prettyprinter.comment(build(r[1], env), r[2])
    if k == 'tcomment':
        import prettyprinter
        return prettyprinter.trailing_comment(build(r[1], env), r[2])
    if k == 'sub':
        cls = env.classes[r[1]]
        return cls(build(r[2], env))
    if k == 'call':     # ['call', clsname, [args], [[kw, r]..]]
        cls = env.classes[r[1]]
        return cls(*[build(a, env) for a in r[2]], **{kw: build(v, env) for kw, v in r[3]})
    raise ValueError(r)


# ------------------------------------------------------------ canonical form
def canon(v):
    t = type(v)
    if t is float:
        return ('float', 'nan' if v != v else repr(v))
    if t is int or t is bool or t is str or t is bytes:
        return (t.__name__, repr(v))
    if v is None:
        return ('None',)
    if v is Ellipsis:
        return ('...',)
    if t is list or t is tuple:
        return (t.__name__, tuple(canon(x) for x in v))
    if t is set or t is frozenset:
        return (t.__name__, tuple(sorted((canon(x) for x in v), key=repr)))
    if t is dict:
        return ('dict', tuple((canon(k), canon(x)) for k, x in v.items()))
    # subclasses of the built-ins: class identity + canon of the base value, read through
    # the base class's own methods so overridden dunders cannot fool the oracle
    bv = base_value(v)
    if bv is not NotImplemented:
        return ('sub', t.__module__ + '.' + t.__qualname__, canon(bv))
    if t is collections.deque:
        return ('deque', v.maxlen, tuple(canon(x) for x in v))
    return ('other', t.__module__ + '.' + t.__qualname__, repr(v))


def base_value(v):
    """The exact built-in value underlying an instance of a subclass of a built-in type."""
    if isinstance(v, bool):
        return bool(v)
    if isinstance(v, int):
        return int.__int__(v)
    if isinstance(v, float):
        return float.__float__(v)
    if isinstance(v, str):
        return str.__getitem__(v, slice(None)) + ''
    if isinstance(v, bytes):
        return bytes.__getitem__(v, slice(None)) + b''
    if isinstance(v, dict):
        return {k: dict.__getitem__(v, k) for k in dict.__iter__(v)}
    for base in (list, tuple, set, frozenset):
        if isinstance(v, base):
            return base(base.__iter__(v))
    return NotImplemented


def canon_unordered_dicts(c):
    """Same canon but dict entries as a sorted multiset (used when the expected key order is unspecified)."""
    if c[0] == 'dict':
        return ('dict~', tuple(sorted(((canon_unordered_dicts(k), canon_unordered_dicts(v)) for k, v in c[1]), key=repr)))
    if c[0] in ('list', 'tuple'):
        return (c[0], tuple(canon_unordered_dicts(x) for x in c[1]))
    if c[0] in ('set', 'frozenset'):
        return (c[0], tuple(sorted((canon_unordered_dicts(x) for x in c[1]), key=repr)))
    if c[0] == 'sub':
        return ('sub', c[1], canon_unordered_dicts(c[2]))
    return c


_SIMPLE_SORTABLE = (int, float, bool, str, bytes)


def _has_nan_or_fs(k):
    if type(k) is float:
        return k != k
    if isinstance(k, frozenset):
        return True
    if isinstance(k, tuple):
        return any(_has_nan_or_fs(x) for x in k)
    return False


def keys_totally_ordered(keys):
    keys = list(keys)
    if any(_has_nan_or_fs(k) for k in keys):
        return False
    try:
        for a in keys:
            for b in keys:
                a < b
    except TypeError:
        return False
    return True


def expected_canon(v, sort_keys):
    """canon of the value the output must evaluate to, plus a flag: dict order fully specified?"""
    specified = True

    def walk(x):
        nonlocal specified
        t = type(x)
        if isinstance(x, dict):
            keys = list(dict.keys(x))
            if sort_keys:
                if keys_totally_ordered(keys):
                    keys = sorted(keys)
                else:
                    specified = False
            inner = ('dict', tuple((walk(k), walk(dict.__getitem__(x, k))) for k in keys))
            if t is dict:
                return inner
            return ('sub', t.__module__ + '.' + t.__qualname__, inner)
        if t is list or t is tuple:
            return (t.__name__, tuple(walk(e) for e in x))
        if t is set or t is frozenset:
            return (t.__name__, tuple(sorted((walk(e) for e in x), key=repr)))
        if isinstance(x, (list, tuple, set, frozenset)):
            base = [b for b in (list, tuple, set, frozenset) if isinstance(x, b)][0]
            inner = walk(base(base.__iter__(x)))
            return ('sub', t.__module__ + '.' + t.__qualname__, inner)
        return canon(x)

    c = walk(v)
    return c, specified


# ---------------------------------------------------------------- evaluation
def evaluate(text, namespace=None):
    ns = {'__builtins__': __builtins__ if isinstance(__builtins__, dict) else vars(__builtins__)}
    if namespace:
        ns.update(namespace)
    return eval(compile('(' + text + '\n)', '<pformat output>', 'eval'), ns)


def ast_dump(text):
    return ast.dump(normalise_ast(ast.parse('(' + text + '\n)', mode='eval')))


class _SetSorter(ast.NodeTransformer):
    """Set displays are compared as sorted multisets of their element dumps (a set built
    twice may iterate differently)."""

    def visit_Set(self, node):
        self.generic_visit(node)
        node.elts = sorted(node.elts, key=ast.dump)
        return node

    def visit_Call(self, node):
        # frozenset([...]) is printed through list(value): the order is the set's iteration order
        self.generic_visit(node)
        if (isinstance(node.func, ast.Name) and node.func.id == 'frozenset' and len(node.args) == 1
                and not node.keywords and isinstance(node.args[0], ast.List)):
            node.args[0].elts = sorted(node.args[0].elts, key=ast.dump)
        return node


def normalise_ast(tree):
    return _SetSorter().visit(tree)


# ------------------------------------------------------------- random values
ALPHA = ['a', 'b', 'Z', ' ', "'", '"', '\\', '\n', '\t', 'é', '中', '\x00', '\x7f', '#', '(', ',', '\U0001f600', '0', '-', '_', '\r', '\x0c', '\ud800', '\xa0', '\u2028']


def rand_text(rng, maxlen=60):
    mode = rng.random()
    if mode < 0.15:
        return ''
    n = rng.randint(1, maxlen) if mode < 0.85 else rng.randint(maxlen, maxlen * 4)
    if rng.random() < 0.4:
        words = []
        while sum(len(w) + 1 for w in words) < n:
            words.append(''.join(rng.choice('abcdefgé') for _ in range(rng.randint(1, 9))))
        return ' '.join(words)[:n]
    return ''.join(rng.choice(ALPHA) for _ in range(n))


def rand_leaf(rng, hashable_only=False):
    c = rng.random()
    if c < 0.22:
        return ['int', rng.choice([0, 1, -1, 7, 255, -2 ** 31, 2 ** 64, 10 ** 30, -10 ** 80, 10 ** 200, rng.randint(-10 ** 6, 10 ** 6)])]
    if c < 0.40:
        return ['float', rng.choice(FLOAT_LEAVES + FLOAT_EXTRA + [repr(rng.uniform(-1e6, 1e6)), repr(rng.random() * 1e-9)])]
    if c < 0.50:
        return rng.choice([['bool', True], ['bool', False], ['none'], ['ellipsis']])
    if c < 0.80:
        return ['str', rand_text(rng)]
    t = rand_text(rng)
    return ['bytes', ''.join(ch if ord(ch) < 256 else '?' for ch in t)]


def rand_tree(rng, depth=6, budget=None, hashable_only=False):
    """Random recipe. budget: [remaining leaves]."""
    if budget is None:
        budget = [rng.randint(1, 50)]
    if depth <= 0 or budget[0] <= 0 or rng.random() < 0.3:
        budget[0] -= 1
        return rand_leaf(rng)
    kinds = ['tuple', 'frozenset'] if hashable_only else ['list', 'tuple', 'set', 'frozenset', 'dict', 'dict', 'list']
    k = rng.choice(kinds)
    n = rng.choice([0, 1, 1, 2, 2, 3, 3, 4, 6, 9])
    if k == 'dict':
        pairs = []
        for _ in range(n):
            kk = rand_tree(rng, min(depth - 1, 2), budget, hashable_only=True)
            vv = rand_tree(rng, depth - 1, budget, hashable_only=False)
            pairs.append([kk, vv])
        return ['dict', pairs]
    child_hash = hashable_only or k in ('set', 'frozenset')
    return [k, [rand_tree(rng, depth - 1, budget, hashable_only=child_hash) for _ in range(n)]]


def needle(depth, leaf, rng=None):
    """A short leaf under `depth` levels of nesting (mixed container kinds)."""
    r = leaf
    for i in range(depth):
        kind = ['list', 'tuple', 'dictv', 'list'][i % 4] if rng is None else rng.choice(['list', 'tuple', 'dictv', 'frozenset'])
        if kind == 'dictv':
            r = ['dict', [[['int', i], r]]]
        elif kind == 'frozenset' and not hashable(r):
            r = ['list', [r]]
        else:
            r = [kind, [r]]
    return r


# ---------------------------------------------------------------- configs
WIDTHS = [1, 2, 3, 5, 10, 20, 40, 79, 200]
RIBBONS = [1, 5, 20, 71, 200]
INDENTS = [1, 2, 4, 8]


def all_configs():
    for w in WIDTHS:
        for rb in RIBBONS:
            for ind in INDENTS:
                for s in (False, True):
                    yield {'width': w, 'ribbon_width': rb, 'indent': ind, 'sort_dict_keys': s}


def rand_config(rng):
    if rng.random() < 0.5:
        return {'width': rng.choice(WIDTHS), 'ribbon_width': rng.choice(RIBBONS),
                'indent': rng.choice(INDENTS), 'sort_dict_keys': rng.random() < 0.5}
    return {'width': rng.randint(1, 200), 'ribbon_width': rng.randint(1, 200),
            'indent': rng.randint(1, 8), 'sort_dict_keys': rng.random() < 0.5}


def rng_for(*parts):
    return random.Random(h64(repr(parts)))
