"""Reference semantics of the document algebra, written from the property statements (C04-C06),
independent of the implementation: it works on vlib.docs terms and on the linearised SDoc stream only.

linearise(sdocs)            -> Stream (items, true column before each item, end column of each line)
Matcher(term, stream, ...)  -> non-deterministic stack machine with memoised dead states deciding whether the
                               stream is one of the layouts the term denotes, optionally under the C05 / C06 obligations.

Modes: BREAK, FLAT.  strict=True is the statement's reading (hardline / always_break never inside a flat group or flat
fill item).  strict=False ("lenient") additionally accepts what the engine does on purpose: a bare HARDLINE rendered
inside a flat group; after that newline, groups / fill items / always_break inside the same flat group decide again.
"""
from prettyprinter.sdoctypes import SAnnotationPop, SAnnotationPush, SLine

from .docs import Ann


def _same_label(stream_value, label):
    want = Ann.OBJS.get(label, label) if isinstance(label, str) else label
    return stream_value is want

BREAK, FLAT, ANY = 0, 1, 2    # ANY: lenient only - remainder of a flat scope after a bare hardline was rendered in it


class Stream:
    def __init__(self, sdocs):
        self.items = []          # ('c', ch) | ('nl', indent) | ('push', obj) | ('pop', obj)
        for s in sdocs:
            if isinstance(s, str):
                for ch in s:
                    self.items.append(('c', ch))
            elif isinstance(s, SLine):
                self.items.append(('nl', s.indent))
            elif isinstance(s, SAnnotationPush):
                self.items.append(('push', s.value))
            elif isinstance(s, SAnnotationPop):
                self.items.append(('pop', s.value))
            else:
                raise ValueError('unknown SDoc %r' % (s,))
        n = len(self.items)
        self.col = [0] * (n + 1)              # column before item i
        c = 0
        for i, it in enumerate(self.items):
            self.col[i] = c
            if it[0] == 'c':
                c += 1
            elif it[0] == 'nl':
                c = it[1]
        self.col[n] = c
        self.line_end = [0] * (n + 1)         # column at the end of the line that position i is on
        end = self.col[n]
        self.line_end[n] = end
        for i in range(n - 1, -1, -1):
            if self.items[i][0] == 'nl':
                end = self.col[i]
            self.line_end[i] = end
        self.next_nl = [n] * (n + 1)
        nxt = n
        for i in range(n - 1, -1, -1):
            if self.items[i][0] == 'nl':
                nxt = i
            self.next_nl[i] = nxt

    def text(self):
        out = []
        for it in self.items:
            if it[0] == 'c':
                out.append(it[1])
            elif it[0] == 'nl':
                out.append('\n' + ' ' * it[1])
        return ''.join(out)

    def well_nested(self):
        st = []
        for it in self.items:
            if it[0] == 'push':
                st.append(it[1])
            elif it[0] == 'pop':
                if not st or st[-1] is not it[1]:
                    return False
                st.pop()
        return not st


def has_forced(t):
    """statically: the term contains a hardline or an always_break (outside flat_choice alternatives)"""
    if isinstance(t, str):
        return False
    k = t[0]
    if k in ('hardline', 'ab'):
        return True
    if k in ('nil', 'line', 'softline'):
        return False
    if k == 'fc':
        return False
    if k in ('cat', 'fill'):
        return any(has_forced(c) for c in t[1])
    if k in ('nest', 'hang', 'ann'):
        return has_forced(t[2])
    return has_forced(t[1])


def hoists_ab(t):
    """An always_break reachable from t through concat / nest / group / always_break chains: normalisation hoists
    it to the root of t (it stops at annotate, flat_choice, fill and at lazily evaluated align/hang documents)."""
    if isinstance(t, str):
        return False
    k = t[0]
    if k == 'ab':
        return True
    if k == 'cat':
        return any(hoists_ab(c) for c in t[1])
    if k == 'nest':
        return hoists_ab(t[2])
    if k == 'group':
        return hoists_ab(t[1])
    if k == 'fill':
        return any((not isinstance(c, str)) and c[0] == 'ab' for c in t[1])
    return False


# fl = (flat groups around, flat fill items around, largest indentation of an enclosing flat group, re-decided flag)
# re-decided flag: some scope between the innermost flat group and here chose BREAK at an indentation SMALLER than that flat group's
NEG = -10 ** 9
ZERO = (0, 0, NEG, 0)


def redecided(fl, ind):
    """fl for the content of a group / fill item that chose BREAK at indentation ind"""
    if fl[0] > 0 and ind < fl[2]:
        return (fl[0], fl[1], fl[2], 1)
    return fl


class Budget(Exception):
    pass


class Matcher:
    """Non-deterministic stack machine. stack = linked list (frame, rest) or None,
    frame = (term, mode, indent, fl): mode is the choice of the nearest enclosing group / fill item (BREAK at top level),
    fl = (number of enclosing groups chosen flat, number of enclosing fill items chosen flat - those do not count for the forcing clause, only for
    recognising the listed findings -, largest indentation of an enclosing flat group, re-decided flag). Every group and every fill item chooses on its own
    (the statement quantifies over assignments of flat/broken to groups and fill items). strict: a hardline or an always_break
    is never rendered while fl > 0 ("forces every enclosing group to break"). lenient: a bare hardline may be rendered in a flat
    scope (what the engine does on purpose); the rest of the enclosing flat scopes is then unconstrained."""

    def __init__(self, term, stream, width, ribbon_frac, smart, strict=True, c05=False, c06=False, node_budget=400000, forcing=True):
        self.term, self.st = term, stream
        self.W = width
        self.R = max(0, min(width, round(ribbon_frac * width)))
        self.smart = smart
        self.strict, self.c05, self.c06 = strict, c05, c06
        # forcing=False: the clause 'hardline / always_break force every enclosing group to break' is not enforced at all
        # (used by C05/C06 to recover the group decisions even from layouts that C04 rejects)
        self.forcing = forcing
        self.dead = set()
        self.nodes = 0
        self.node_budget = node_budget
        self.cons = {}
        self.stats = {'flat_groups': 0, 'broken_groups': 0, 'exact_fit': 0, 'c06_obligations': 0, 'smart_only': 0, 'forced_later': 0,
                      }
        self.used_lenient = False
        self.used_redecided = False

    def push(self, frame, rest):
        key = (frame, id(rest))
        node = self.cons.get(key)
        if node is None:
            node = (frame, rest)
            self.cons[key] = node
        return node

    def run(self):
        return self.go(self.push((self.term, BREAK, 0, ZERO), None), 0)

    def relax(self, stack, fl_h):
        """lenient only: a bare hardline was rendered inside a flat scope (a group or a fill item laid out flat because the
        engine's look-ahead stops at a hardline). Everything that is still pending of the enclosing flat scopes becomes
        unconstrained (mode ANY, no forcing obligation)."""
        frames = []
        node = stack
        while node is not None:
            frames.append(node[0])
            node = node[1]
        # The engine decides a fill's content item and the separator after it TOGETHER (the separator is flat iff content + separator
        # fit): when the content item is laid out flat because the look-ahead stopped at the bare hardline, the separator that follows it
        # was never looked at either - it belongs to the same flat scope although it is a fill item of its own here.
        # partners: for every enclosing fill item that was laid out flat, the item that follows it in its fill (the engine decides content and
        # separator together, its look-ahead stopped at the hardline, so that next item was never examined). Parity is not used: Fill.normalize
        # drops items that normalise to NIL, which shifts content / separator positions relative to the term as written.
        partners = set()
        n = fl_h[1]
        for i, (t, mode, ind, fl) in enumerate(frames):
            if n <= 0:
                break
            if fl[1] >= n:
                continue          # still inside the innermost not yet handled flat fill item
            if not isinstance(t, str) and t[0] == 'fill' and len(t) > 2 and t[1]:
                partners.add(i)
            n = fl[1]
        node = None
        for i in range(len(frames) - 1, -1, -1):
            (t, mode, ind, fl) = frames[i]
            if i in partners:
                if len(t[1]) > 1:
                    if mode == FLAT or fl != ZERO:
                        node = self.push((('fill', t[1][1:], 0), ANY if mode == FLAT else mode, ind, ZERO), node)
                    else:
                        node = self.push((('fill', t[1][1:], 0), mode, ind, fl), node)
                node = self.push((t[1][0], ANY, ind, ZERO), node)
            elif mode == FLAT or fl != ZERO:
                node = self.push((t, ANY if mode == FLAT else mode, ind, ZERO), node)
            else:
                node = self.push((t, mode, ind, fl), node)
        return node

    def go(self, stack, pos):
        """True iff stream[pos:] is a layout of the stack."""
        items = self.st.items
        while True:
            if stack is None:
                return pos == len(items)
            key = (id(stack), pos)
            if key in self.dead:
                return False
            self.nodes += 1
            if self.nodes > self.node_budget:
                raise Budget()
            (t, mode, ind, fl), rest = stack
            if isinstance(t, str):
                n = len(t)
                if pos + n > len(items):
                    self.dead.add(key)
                    return False
                for i in range(n):
                    it = items[pos + i]
                    if it[0] != 'c' or it[1] != t[i]:
                        self.dead.add(key)
                        return False
                stack, pos = rest, pos + n
                continue
            k = t[0]
            if k == 'nil':
                stack = rest
                continue
            if k == '$pop':
                if pos < len(items) and items[pos][0] == 'pop' and _same_label(items[pos][1], t[1]):
                    stack, pos = rest, pos + 1
                    continue
                self.dead.add(key)
                return False
            if k == 'hardline':
                if fl[0] > 0 and self.strict and self.forcing:
                    self.dead.add(key)
                    return False
                if self.forcing and not self.strict and (fl[0] > 0 or fl[1] > 0 or mode != BREAK):
                    if fl[3] and mode == BREAK:
                        self.used_redecided = True
                    else:
                        self.used_lenient = True
                    rest = self.relax(rest, fl)
                if pos < len(items) and items[pos] == ('nl', ind):
                    stack, pos = rest, pos + 1
                    continue
                self.dead.add(key)
                return False
            if mode == ANY and k in ('line', 'softline', 'fc'):
                # lenient: the group was laid out flat although it contains a forced break; what follows the
                # newline may come out in either mode (always_break hoisting inside lazily evaluated documents)
                if k == 'fc':
                    alts = (t[2], t[1])
                else:
                    alts = (' ' if k == 'line' else ('nil',), ('hardline',))
                if self.go(self.push((alts[0], mode, ind, fl), rest), pos):
                    return True
                ok = self.go(self.push((alts[1], mode, ind, fl), rest), pos)
                if not ok:
                    self.dead.add(key)
                return ok
            if k == 'line' or k == 'softline':
                if mode == FLAT:
                    stack = self.push((' ' if k == 'line' else ('nil',), mode, ind, fl), rest)
                else:
                    stack = self.push((('hardline',), mode, ind, fl), rest)
                continue
            if k == 'fc':
                stack = self.push((t[2] if mode == FLAT else t[1], mode, ind, fl), rest)
                continue
            if k == 'cat':
                for c in reversed(t[1]):
                    rest = self.push((c, mode, ind, fl), rest)
                stack = rest
                continue
            if k == 'nest':
                stack = self.push((t[2], mode, ind + t[1], fl), rest)
                continue
            if k in ('align', 'hang', 'lazy'):
                body = t[2] if k == 'hang' else t[1]
                if self.forcing and fl[0] > 0 and not fl[3] and hoists_ab(body):
                    # a lazily evaluated body is normalised when the engine reaches it - also in the look-ahead that decides an enclosing
                    # flat GROUP: an always_break anywhere in it is hoisted to its START, so the look-ahead meets it before any hardline of
                    # the body and the group cannot have been laid out flat (after an EARLIER bare hardline the scope is already relaxed).
                    # Flat fill items are left out: a separator is not always examined (see relax) and Fill.normalize shifts positions.
                    self.dead.add(key)
                    return False
                stack = self.push((body, mode, ind if k == 'lazy' else self.st.col[pos] + (0 if k == 'align' else t[1]), fl), rest)
                continue
            if k == 'ann':
                if pos < len(items) and items[pos][0] == 'push' and _same_label(items[pos][1], t[1]):
                    rest = self.push((('$pop', t[1]), mode, ind, fl), rest)
                    stack, pos = self.push((t[2], mode, ind, fl), rest), pos + 1
                    continue
                self.dead.add(key)
                return False
            if k == 'ab':
                if fl[0] > 0 and self.forcing:
                    if self.strict or not fl[3]:
                        self.dead.add(key)
                        return False
                    # lenient: the always_break sits in a scope that the engine re-decided (and broke) inside a flat group because its
                    # indentation is smaller than the flat group's - the second listed finding
                    self.used_redecided = True
                stack = self.push((t[1], BREAK, ind, fl), rest)
                continue
            if k == 'group':
                ok = self.group(t, mode, ind, fl, rest, pos)
                if not ok:
                    self.dead.add(key)
                return ok
            if k == 'fill':
                ok = self.fill(t, mode, ind, fl, rest, pos)
                if not ok:
                    self.dead.add(key)
                return ok
            raise ValueError(t)

    def group(self, t, mode, ind, fl, rest, pos):
        content = t[1]
        flat_ok = True
        if self.c05:
            limit = min(self.W, ind + self.R)
            if self.st.line_end[pos] > limit:
                flat_ok = False
        if flat_ok:
            if self.go(self.push((content, FLAT, ind, (fl[0] + 1, fl[1], max(fl[2], ind), 0)), rest), pos):
                self.stats['flat_groups'] += 1
                if self.st.line_end[pos] == min(self.W, ind + self.R):
                    self.stats['exact_fit'] += 1
                return True
        if self.c06 and not has_forced(content):
            verdict = would_fit(content, ind, rest, self.st.col[pos], self.W, self.R, self.smart)
            if verdict == 'fits':
                return False
            self.stats['c06_obligations'] += 1
            if verdict == 'smart':
                self.stats['smart_only'] += 1
            elif verdict == 'forced':
                self.stats['forced_later'] += 1
        if self.go(self.push((content, BREAK, ind, redecided(fl, ind)), rest), pos):
            self.stats['broken_groups'] += 1
            return True
        return False

    def fill(self, t, mode, ind, fl, rest, pos):
        items = t[1]
        if not items:
            return self.go(rest, pos)
        par = t[2] if len(t) > 2 else 0       # parity of items[0] in the original fill: 0 = content, 1 = separator
        first, remaining = items[0], items[1:]
        rest2 = self.push((('fill', remaining, 1 - par), mode, ind, fl), rest) if remaining else rest
        # a flat fill item is not a group: the statement lets forced breaks force enclosing *groups* only
        if self.go(self.push((first, FLAT, ind, (fl[0], fl[1] + 1, fl[2], fl[3])), rest2), pos):
            return True
        return self.go(self.push((first, BREAK, ind, redecided(fl, ind)), rest2), pos)


def would_fit(content, ind_g, rest, col, W, R, smart):
    """The rule of C06 read on the un-normalised term with true columns: lay the group and what follows it on the same
    line out flat (following groups assumed flat, enclosing modes as decided). Returns 'fits', or the justification
    for breaking: 'overflow' (page or ribbon), 'smart' (a following more-indented line passes the page width),
    'forced' (a forced-break document starts in the scanned region)."""
    limit = min(W, ind_g + R)
    min_nest = min(col, ind_g)
    cur = col
    first_line = True
    work = [(content, FLAT, ind_g, 0)]
    node = rest
    if cur > limit:
        return 'overflow'      # the line is already past the limit where the group starts
    while True:
        if not work:
            if node is None:
                return 'fits'
            work.append(node[0])
            node = node[1]
        t, mode, ind, _fl = work.pop()
        if isinstance(t, str):
            cur += len(t)
            if cur > limit:
                return 'overflow' if first_line else 'smart'
            continue
        k = t[0]
        if k in ('nil', '$pop'):
            continue
        if k == 'hardline':
            if smart and ind > min_nest:
                cur = ind
                limit = W
                first_line = False
                if cur > limit:
                    return 'smart'
                continue
            return 'fits'
        if k == 'line':
            work.append((' ' if mode != BREAK else ('hardline',), mode, ind, 0))
        elif k == 'softline':
            if mode == BREAK:
                work.append((('hardline',), mode, ind, 0))
        elif k == 'fc':
            work.append((t[2] if mode != BREAK else t[1], mode, ind, 0))
        elif k in ('cat', 'fill'):
            for c in reversed(t[1]):
                work.append((c, mode, ind, 0))
        elif k == 'nest':
            work.append((t[2], mode, ind + t[1], 0))
        elif k == 'lazy':
            if hoists_ab(t[1]):
                return 'forced'
            work.append((t[1], mode, ind, 0))
        elif k == 'align':
            # a lazily evaluated document: when the engine reaches it, an always_break inside is hoisted to its start
            if hoists_ab(t[1]):
                return 'forced'
            work.append((t[1], mode, cur, 0))
        elif k == 'hang':
            if hoists_ab(t[2]):
                return 'forced'
            work.append((t[2], mode, cur + t[1], 0))
        elif k == 'ann':
            if hoists_ab(t[2]):
                return 'forced'
            work.append((t[2], mode, ind, 0))
        elif k == 'group':
            # a group whose content hoists an always_break no longer exists after the initial normalisation (Group(AlwaysBreak(x)) becomes
            # AlwaysBreak(x), hoisted further up): the engine's look-ahead meets x in break mode, not a flat group
            work.append((t[1], BREAK if hoists_ab(t[1]) else FLAT, ind, 0))
        elif k == 'ab':
            # reached through a concat/nest/group chain from the top: this marker was hoisted above the group under
            # consideration by the initial normalisation, the engine no longer sees it here - its content is broken
            work.append((t[1], BREAK, ind, 0))
        else:
            raise ValueError(t)


def render_check(stream_text, rendered):
    """The default renderer may only trim trailing spaces of lines. Returns None or a message."""
    a, b = stream_text.split('\n'), rendered.split('\n')
    if len(a) != len(b):
        return 'rendered text has %d lines, the stream %d' % (len(b), len(a))
    for x, y in zip(a, b):
        if not x.startswith(y) or x[len(y):].strip(' ') != '':
            return 'rendered line %r is not the stream line %r with trailing spaces trimmed' % (y, x)
    return None
