"""Deterministic line-level thread scheduler built on sys.monitoring.

All worker threads are created parked on their own semaphore; exactly one runs. A LINE callback, active only for code
objects of the chosen files, counts the running thread's line events and, where the policy says so, hands the baton to
another thread (release its semaphore, acquire our own). A thread that ends passes the baton on. The interleaving is
therefore a function of the policy alone - the GIL's own switching never matters because every other thread is blocked.

Real locks in the code under test would deadlock such a scheduler, so lock objects found as module globals of the package
are replaced by a cooperative SchedRLock that, when contended, marks the thread blocked and yields to another thread.
A watchdog turns a stuck schedule into 'inconclusive', never into a verdict.
"""
import sys
import threading
import time

TOOL = 4


class SchedulerAbort(BaseException):
    pass


class SchedRLock:
    """Cooperative re-entrant lock: never blocks the OS thread while holding the baton."""

    def __init__(self, sched, name='lock'):
        self.sched, self.name = sched, name
        self.owner = None
        self.count = 0
        self.acquisitions = 0
        self.contended = 0

    def acquire(self, blocking=True, timeout=-1):
        s = self.sched
        me = s.current_index()
        if me is None:            # not a scheduled thread (set-up code): plain semantics
            self.owner, self.count = 'external', self.count + 1
            return True
        while True:
            if self.owner is None or self.owner == me:
                self.owner = me
                self.count += 1
                self.acquisitions += 1
                return True
            self.contended += 1
            s.block_on(me, self)

    def release(self):
        self.count -= 1
        if self.count == 0:
            self.owner = None
            self.sched.unblock(self)

    __enter__ = acquire

    def __exit__(self, *a):
        self.release()
        return False


class Scheduler:
    def __init__(self, files, policy, watchdog=20.0):
        self.files = tuple(files)
        self.policy = policy
        self.watchdog = watchdog
        self.threads = []
        self.sems = []
        self.idents = {}
        self.steps = []
        self.done = []
        self.blocked = []          # lock a thread waits for, or None
        self.running = None
        self.switches = []         # (from, to, step, qualname, line)
        self.stuck = False
        self.deadlock = False
        self.sites = {}            # (qualname, line) -> count of preemptions there

    # -- thread bookkeeping -------------------------------------------------
    def current_index(self):
        return self.idents.get(threading.get_ident())

    def add(self, fn):
        i = len(self.threads)
        sem = threading.Semaphore(0)

        def runner():
            self.idents[threading.get_ident()] = i
            if not sem.acquire(timeout=self.watchdog):
                self.stuck = True
                return
            try:
                fn()
            except SchedulerAbort:
                pass
            finally:
                self.done[i] = True
                self.pass_baton(i)

        t = threading.Thread(target=runner, daemon=True)
        self.threads.append(t)
        self.sems.append(sem)
        self.steps.append(0)
        self.done.append(False)
        self.blocked.append(None)
        return i

    def runnable(self, exclude=None):
        return [j for j in range(len(self.threads)) if not self.done[j] and self.blocked[j] is None and j != exclude]

    def pass_baton(self, me):
        """called by a finishing thread"""
        nxt = self.policy.on_finish(self, me) if hasattr(self.policy, 'on_finish') else None
        cand = self.runnable(exclude=me)
        if nxt is None or nxt not in cand:
            nxt = cand[0] if cand else None
        if nxt is None:
            if any(not d for d in self.done):
                self.deadlock = True
            return
        self.running = nxt
        self.sems[nxt].release()

    def switch(self, me, target, code=None, line=None):
        self.switches.append((me, target, self.steps[me], code.co_qualname if code else '?', line))
        if code is not None:
            key = (code.co_qualname, line)
            self.sites[key] = self.sites.get(key, 0) + 1
        self.running = target
        self.sems[target].release()
        if not self.sems[me].acquire(timeout=self.watchdog):
            self.stuck = True
            raise SchedulerAbort()

    def block_on(self, me, lock):
        self.blocked[me] = lock
        cand = self.runnable(exclude=me)
        if not cand:
            self.deadlock = True
            self.blocked[me] = None
            raise SchedulerAbort()
        target = lock.owner if lock.owner in cand else cand[0]
        self.switches.append((me, target, self.steps[me], 'blocked on ' + lock.name, None))
        self.running = target
        self.sems[target].release()
        if not self.sems[me].acquire(timeout=self.watchdog):
            self.stuck = True
            raise SchedulerAbort()

    def checkpoint(self, tag):
        """called by the scheduled code itself at call boundaries: lets a policy switch between two calls of one thread"""
        me = self.current_index()
        if me is None or not hasattr(self.policy, 'on_checkpoint'):
            return
        target = self.policy.on_checkpoint(self, me, tag)
        if target is not None and target != me and not self.done[target] and self.blocked[target] is None:
            self.switch(me, target)

    def unblock(self, lock):
        for j in range(len(self.blocked)):
            if self.blocked[j] is lock:
                self.blocked[j] = None

    # -- running ------------------------------------------------------------
    def run(self, first=0):
        mon = sys.monitoring
        mon.use_tool_id(TOOL, 'verif-sched')
        files = self.files
        DISABLE = mon.DISABLE
        idents = self.idents
        steps = self.steps
        policy = self.policy
        get_ident = threading.get_ident

        def on_line(code, line):
            if not code.co_filename.startswith(files):
                return DISABLE
            me = idents.get(get_ident())
            if me is None:
                return None
            steps[me] += 1
            target = policy.decide(self, me, steps[me], code, line)
            if target is not None and target != me and not self.done[target] and self.blocked[target] is None:
                self.switch(me, target, code, line)
            return None

        mon.register_callback(TOOL, mon.events.LINE, on_line)
        mon.set_events(TOOL, mon.events.LINE)
        mon.restart_events()
        try:
            for t in self.threads:
                t.start()
            # wait until every thread has registered its ident and is parked
            deadline = time.time() + self.watchdog
            while len(idents) < len(self.threads) and time.time() < deadline:
                time.sleep(0.0005)
            self.running = first
            self.sems[first].release()
            for t in self.threads:
                t.join(timeout=self.watchdog)
                if t.is_alive():
                    self.stuck = True
        finally:
            mon.set_events(TOOL, 0)
            mon.register_callback(TOOL, mon.events.LINE, None)
            mon.free_tool_id(TOOL)
        return not self.stuck


# ------------------------------------------------------------------ policies
class NoPreemption:
    def decide(self, s, me, step, code, line):
        return None


class PreemptAt:
    """points: {(thread, step): target} - preempt `thread` right before it executes its step-th line."""

    def __init__(self, points, finish_order=None):
        self.points = dict(points)
        self.finish_order = finish_order

    def decide(self, s, me, step, code, line):
        return self.points.get((me, step))

    def on_finish(self, s, me):
        return None


class PreemptThenReturnAtCall:
    """A is preempted before its k-th line; B runs until it has finished its j-th call, then A runs to completion, then B continues."""

    def __init__(self, a, k, b, j):
        self.a, self.k, self.b, self.j = a, k, b, j
        self.returned = False

    def decide(self, s, me, step, code, line):
        if me == self.a and step == self.k:
            return self.b
        return None

    def on_checkpoint(self, s, me, tag):
        if me == self.b and not self.returned and tag == self.j and s.steps[self.a] >= self.k and not s.done[self.a]:
            self.returned = True
            return self.a
        return None


class PreemptInFunctions:
    """preempt `thread` the n-th time it executes a line inside one of the named functions"""

    def __init__(self, thread, target, qualnames, n):
        self.thread, self.target, self.qualnames, self.n = thread, target, set(qualnames), n
        self.seen = 0

    def decide(self, s, me, step, code, line):
        if me == self.thread and code.co_qualname in self.qualnames:
            self.seen += 1
            if self.seen == self.n:
                return self.target
        return None


class RandomPriority:
    """PCT-style: random priorities, d priority change points at random global steps; always runs the highest-priority runnable thread."""

    def __init__(self, rng, nthreads, total_steps, d):
        self.prio = list(range(nthreads))
        rng.shuffle(self.prio)
        self.change = sorted(rng.randrange(1, max(2, total_steps)) for _ in range(d))
        self.global_step = 0
        self.low = -1

    def decide(self, s, me, step, code, line):
        self.global_step += 1
        if self.change and self.global_step >= self.change[0]:
            self.change.pop(0)
            self.prio[me] = self.low
            self.low -= 1
        cand = s.runnable()
        if not cand:
            return None
        best = max(cand, key=lambda j: self.prio[j])
        return best if best != me else None

    def on_finish(self, s, me):
        cand = s.runnable(exclude=me)
        return max(cand, key=lambda j: self.prio[j]) if cand else None
