"""Monitors attached to the real package from outside (no repository change needed).

* warning recorder (every warning issued while a print runs)
* contracts on the string helpers (str_to_lines / escape_str_for_quote), active in every check that prints
* LINE-event step counter restricted to the package's files, with a budget that aborts a run
* visited-set tracer (start_visit / end_visit / is_visited event log + offline stack-discipline checker)
* fitting-predicate recorder
"""
import ast
import os
import sys
import warnings

import prettyprinter
import prettyprinter.layout as pp_layout

ppm = sys.modules['prettyprinter.prettyprinter']
PKG_DIR = os.path.dirname(os.path.abspath(prettyprinter.__file__)) + os.sep


class MonitorAbort(BaseException):
    """Raised by monitors; BaseException so the package's `except Exception` cannot swallow it."""


class ContractViolation(MonitorAbort):
    def __init__(self, key, what, detail=None):
        super().__init__(what)
        self.key, self.what, self.detail = key, what, detail


class StepBudgetExceeded(MonitorAbort):
    pass


# ------------------------------------------------------------------ warnings
WARNINGS = []
_installed_warn = False


def install_warning_recorder():
    global _installed_warn
    if _installed_warn:
        return
    _installed_warn = True
    warnings.simplefilter('always')

    def showwarning(message, category, filename, lineno, file=None, line=None):
        WARNINGS.append((category.__name__, str(message)))

    warnings.showwarning = showwarning


def take_warnings():
    out = list(WARNINGS)
    del WARNINGS[:]
    return out


def fallback_warnings(ws):
    return [w for w in ws if 'Falling back to default repr' in w[1]]


# --------------------------------------------------------- string contracts
COUNTS = {'str_to_lines': 0, 'escape_str_for_quote': 0, 'pretty_single_line_str': 0,
          'determine_quote_strategy': 0}
_contracts_on = False
_orig = {}


def _base(s):
    if isinstance(s, str):
        return str.__getitem__(s, slice(None)) + ''
    return bytes.__getitem__(s, slice(None)) + b''


def install_string_contracts(step_budget=True):
    """Pre/post-conditions on the real splitting/escaping functions, looked up through module globals."""
    global _contracts_on
    if _contracts_on:
        return
    _contracts_on = True
    o_split = _orig['str_to_lines'] = ppm.str_to_lines
    o_esc = _orig['escape_str_for_quote'] = ppm.escape_str_for_quote
    o_single = _orig['pretty_single_line_str'] = ppm.pretty_single_line_str
    o_quote = _orig['determine_quote_strategy'] = ppm.determine_quote_strategy
    split_code = o_split.__code__

    def str_to_lines(max_len, use_quote, s, pattern=None):
        COUNTS['str_to_lines'] += 1
        budget = 400 * (len(s) + 10)
        pieces = []
        with LocalLineBudget(split_code, budget) if step_budget else _null():
            for piece in o_split(max_len, use_quote, s, pattern=pattern):
                pieces.append(piece)
                if len(pieces) > len(s) + 2:
                    raise ContractViolation('str_to_lines-too-many-pieces',
                                            'str_to_lines yielded more pieces than characters',
                                            {'max_len': max_len, 's': repr(s)})
        empty = '' if isinstance(s, str) else b''
        if _base(empty.join(pieces)) != _base(s):
            raise ContractViolation('str_to_lines-join', 'pieces of str_to_lines do not join back to the input',
                                    {'max_len': max_len, 'q': use_quote, 's': repr(s), 'pieces': repr(pieces)})
        if any(len(p) == 0 for p in pieces):
            raise ContractViolation('str_to_lines-empty-piece', 'str_to_lines produced an empty piece',
                                    {'max_len': max_len, 'q': use_quote, 's': repr(s), 'pieces': repr(pieces)})
        return iter(pieces)

    def escape_str_for_quote(use_quote, s):
        COUNTS['escape_str_for_quote'] += 1
        res = o_esc(use_quote, s)
        prefix = 'b' if isinstance(s, bytes) else ''
        try:
            back = ast.literal_eval(prefix + use_quote + res + use_quote)
        except Exception as e:
            if type(s) in (str, bytes):
                raise ContractViolation('escape-not-a-literal', 'escape_str_for_quote result is not a valid literal body',
                                        {'q': use_quote, 's': repr(s), 'result': res, 'error': repr(e)})
            raise ContractViolation('escape-subclass-repr', 'escape_str_for_quote on a str/bytes subclass instance gives an invalid literal body',
                                    {'q': use_quote, 's': repr(_base(s)), 'result': res, 'error': repr(e)})
        if back != _base(s) or type(back) is not type(_base(s)):
            key = 'escape-roundtrip' if type(s) in (str, bytes) else 'escape-subclass-repr'
            raise ContractViolation(key, 'escape_str_for_quote result does not evaluate back to the input',
                                    {'q': use_quote, 's': repr(_base(s)), 'result': res})
        return res

    def pretty_single_line_str(s, indent, use_quote=None):
        COUNTS['pretty_single_line_str'] += 1
        return o_single(s, indent, use_quote)

    def determine_quote_strategy(s):
        COUNTS['determine_quote_strategy'] += 1
        q = o_quote(s)
        if q not in ("'", '"'):
            raise ContractViolation('quote-strategy', 'determine_quote_strategy returned %r' % (q,), {'s': repr(s)})
        return q

    ppm.str_to_lines = str_to_lines
    ppm.escape_str_for_quote = escape_str_for_quote
    ppm.pretty_single_line_str = pretty_single_line_str
    ppm.determine_quote_strategy = determine_quote_strategy


class _null:
    def __enter__(self):
        return self

    def __exit__(self, *a):
        return False


# ------------------------------------------------------------- step counting
TOOL = 3  # sys.monitoring tool id (PROFILER_ID=2, OPTIMIZER_ID=5; 3 and 4 are free)
_tool_ready = False


def _ensure_tool():
    global _tool_ready
    if not _tool_ready:
        sys.monitoring.use_tool_id(TOOL, 'verif-steps')
        _tool_ready = True


class LocalLineBudget:
    """Counts LINE events of ONE code object (cheap: local events) and aborts past `budget`."""
    _depth = 0

    def __init__(self, code, budget):
        self.code, self.budget, self.n = code, budget, 0

    def __enter__(self):
        LocalLineBudget._depth += 1
        if LocalLineBudget._depth > 1 or StepCounter.active:
            self.nested = True
            return self
        self.nested = False
        _ensure_tool()
        mon = sys.monitoring

        def on_line(code, line):
            self.n += 1
            if self.n > self.budget:
                raise StepBudgetExceeded('more than %d line events in %s' % (self.budget, code.co_name))

        mon.register_callback(TOOL, mon.events.LINE, on_line)
        mon.set_local_events(TOOL, self.code, mon.events.LINE)
        return self

    def __exit__(self, *a):
        LocalLineBudget._depth -= 1
        if not self.nested:
            mon = sys.monitoring
            mon.set_local_events(TOOL, self.code, 0)
            mon.register_callback(TOOL, mon.events.LINE, None)
        return False


class StepCounter:
    """Counts LINE events in code objects of the package (all others DISABLEd), optional budget."""
    active = False

    def __init__(self, budget=None, files_prefix=PKG_DIR):
        self.budget, self.prefix, self.n = budget, files_prefix, 0
        self.funcs = {}

    def __enter__(self):
        _ensure_tool()
        StepCounter.active = True
        mon = sys.monitoring
        prefix = self.prefix
        DISABLE = mon.DISABLE

        def on_line(code, line):
            if not code.co_filename.startswith(prefix):
                return DISABLE
            self.n += 1
            if self.budget is not None and self.n > self.budget:
                raise StepBudgetExceeded('more than %d line events inside the package' % self.budget)

        mon.register_callback(TOOL, mon.events.LINE, on_line)
        mon.set_events(TOOL, mon.events.LINE)
        mon.restart_events()
        return self

    def __exit__(self, *a):
        mon = sys.monitoring
        mon.set_events(TOOL, 0)
        mon.register_callback(TOOL, mon.events.LINE, None)
        StepCounter.active = False
        return False


class EntryCounter:
    """PY_START counters per qualified function name of the package (reach evidence)."""

    def __init__(self):
        self.hits = {}

    def __enter__(self):
        _ensure_tool()
        mon = sys.monitoring

        def on_start(code, offset):
            if not code.co_filename.startswith(PKG_DIR):
                return mon.DISABLE
            q = code.co_qualname
            self.hits[q] = self.hits.get(q, 0) + 1

        mon.register_callback(TOOL, mon.events.PY_START, on_start)
        mon.set_events(TOOL, mon.events.PY_START)
        mon.restart_events()
        return self

    def __exit__(self, *a):
        mon = sys.monitoring
        mon.set_events(TOOL, 0)
        mon.register_callback(TOOL, mon.events.PY_START, None)
        return False


# ------------------------------------------------------------ visited tracer
class VisitedTracer:
    """Logs every visited-set operation; `check()` is the offline trace checker:
    stack discipline, is_visited == (id on the open stack), empty at the end."""

    def __init__(self):
        self.log = []
        self.installed = False

    def install(self):
        if self.installed:
            return
        self.installed = True
        C = ppm.PrettyContext
        o_start, o_end, o_is = C.start_visit, C.end_visit, C.is_visited
        log = self.log

        def start_visit(ctx, value):
            log.append(('start', id(value), id(ctx.visited)))
            return o_start(ctx, value)

        def end_visit(ctx, value):
            log.append(('end', id(value), id(ctx.visited)))
            return o_end(ctx, value)

        def is_visited(ctx, value):
            r = o_is(ctx, value)
            log.append(('is', id(value), id(ctx.visited), bool(r)))
            return r

        C.start_visit, C.end_visit, C.is_visited = start_visit, end_visit, is_visited

    def reset(self):
        del self.log[:]

    def check(self, expect_empty=True, allow_unbalanced=False):
        """Returns (ok, message, stats)."""
        stack = []
        sets = set()
        n_is = n_true = 0
        for ev in self.log:
            sets.add(ev[2])
            if ev[0] == 'start':
                if ev[1] in stack:
                    return False, 'start_visit of id %d which is already open' % ev[1], {}
                stack.append(ev[1])
            elif ev[0] == 'end':
                if not stack or stack[-1] != ev[1]:
                    if allow_unbalanced and ev[1] in stack:
                        while stack[-1] != ev[1]:
                            stack.pop()
                        stack.pop()
                        continue
                    return False, 'end_visit of id %d does not match the innermost open visit %r' % (ev[1], stack[-1:]), {}
                stack.pop()
            else:
                n_is += 1
                n_true += ev[3]
                if ev[3] != (ev[1] in stack):
                    return False, 'is_visited(%d) answered %s but open stack membership is %s' % (ev[1], ev[3], ev[1] in stack), {}
        if len(sets) > 1:
            return False, 'more than one visited set used within one top-level call', {}
        if expect_empty and stack:
            return False, 'visited stack not empty when the print returned: %d ids left' % len(stack), {}
        return True, '', {'is_visited': n_is, 'is_visited_true': n_true, 'events': len(self.log)}


# ------------------------------------------------- fitting predicate recorder
class FitRecorder:
    def __init__(self):
        self.decisions = []
        self.installed = False

    def install(self):
        if self.installed:
            return
        self.installed = True
        o_smart, o_fast = pp_layout.smart_fitting_predicate, pp_layout.fast_fitting_predicate
        dec = self.decisions

        def smart(*a, **k):
            r = o_smart(*a, **k)
            dec.append(('smart', bool(r)))
            return r

        def fast(*a, **k):
            r = o_fast(*a, **k)
            dec.append(('fast', bool(r)))
            return r

        pp_layout.smart_fitting_predicate = smart
        pp_layout.fast_fitting_predicate = fast

    def reset(self):
        del self.decisions[:]


# --------------------------------------------------------------- one print
def pp(value, **cfg):
    """pformat with the warning recorder: returns (text, warnings)."""
    del WARNINGS[:]
    text = prettyprinter.pformat(value, **cfg)
    return text, take_warnings()
