"""C04 - the layout engine only ever picks one of the layouts a document denotes.

Documents are generated as our own terms and turned into real documents only through the public combinators
(a plain str wherever a document is accepted). The SDoc stream of layout_smart / layout_fast is linearised and
decided by refsem.Matcher: membership of the stream in the term's layout set, under the statement's reading
(strict). If only the lenient reading accepts it, the engine rendered a bare HARDLINE inside a flat group - the
listed known finding. Annotation push/pop nesting and the default renderer (only trailing spaces trimmed) are
checked on every stream.
"""
import prettyprinter.layout as L
from prettyprinter.render import default_render_to_str

from .. import docs as D
from .. import monitors as M
from .. import refsem as R
from .. import values as V

RULE = ('all document terms with <= S nodes over leaves {a, bb, LINE, SOFTLINE, HARDLINE} (thorough also "", NIL, " ") and constructors nest, group, always_break, align, hang, '
        'annotate, concat/2-3, flat_choice, fill/3, plus random larger terms (depth <= 6, fan-out <= 5), each at boundary-directed and random widths in 1..40 x ribbon fractions '
        '{1.0,0.9,0.5,0.33,0.1} x {layout_smart, layout_fast}; a case is (term, width, fraction, strategy); non-trivial = the term contains a choice (group, fill, flat_choice, line, softline)')
ASSUMPTIONS = ['the reference semantics in vlib/refsem.py is a faithful reading of the statement', 'annotation labels are compared by identity/equality']
FRACS = [1.0, 0.9, 0.5, 0.33, 0.1]


def layouts():
    return {'smart': L.layout_smart, 'fast': L.layout_fast}


def classify(term):
    for s in D.subterms(term):
        if not isinstance(s, str) and s[0] == 'fill' and any((not isinstance(c, str)) and c[0] == 'ab' for c in s[1]):
            return 'always-break-fill-item-laid-out-flat'
    return 'layout-not-denoted'


def check_one(sh, term, width, frac, strat, want_stats=False):
    case = {'term': D.to_json(term), 'show': D.show(term), 'width': width, 'ribbon_frac': frac, 'strategy': strat}
    share = (hash((D.size(term), width, strat)) % 2 == 0)
    try:
        doc = D.build(term, {} if share else None)
    except AssertionError as e:
        sh.violation('str-child-rejected', 'a public combinator rejected a plain str child (AssertionError) although validate_doc accepts it: %s' % D.show(term), case)
        return None
    except Exception as e:
        sh.violation('combinator-raised', '%r for %s' % (e, D.show(term)), case)
        return None
    try:
        sdocs = list(layouts()[strat](doc, width=width, ribbon_frac=frac))
    except AssertionError as e:
        sh.violation('str-child-rejected', 'layout raised AssertionError on a document built from public combinators with a plain str child: %s' % D.show(term), case)
        return None
    except Exception as e:
        sh.violation('layout-raised', '%r for %s' % (e, D.show(term)), case)
        return None
    st = R.Stream(sdocs)
    # laying the very same document object out again (and again at another width first) must give the same stream:
    # documents are shared between prints (module-level constants), normalisation must leave no state behind
    try:
        list(layouts()[strat](doc, width=max(1, width // 2), ribbon_frac=frac))
        again = R.Stream(list(layouts()[strat](doc, width=width, ribbon_frac=frac)))
        if again.items != st.items:
            sh.violation('second-layout-of-the-same-document-differs', 'laying out the same document object twice gives different streams: %r vs %r for %s' % (st.text(), again.text(), D.show(term)), case)
            return None
        sh.counters['re-layouts of the same document object verified'] += 1
        if share:
            sh.counters['documents built with shared sub-document objects'] += 1
    except Exception as e:
        sh.violation('layout-raised', 'second layout raised %r for %s' % (e, D.show(term)), case)
        return None
    if not st.well_nested():
        sh.violation('annotations-not-nested', 'push/pop not properly nested: %r' % (sdocs,), case)
        return None
    try:
        m = R.Matcher(term, st, width, frac, strat == 'smart', strict=True)
        ok = m.run()
        if not ok:
            m2 = R.Matcher(term, st, width, frac, strat == 'smart', strict=False)
            if m2.run():
                if m2.used_redecided:
                    sh.violation('forced-break-in-scope-re-decided-inside-flat-group', 'a hardline / always_break was rendered inside a flat group, in a nested group or fill item that the engine '
                                 're-decided and broke because its indentation is smaller than the flat group\'s: %s at width %d frac %s (%s) -> %r' % (D.show(term), width, frac, strat, st.text()), case)
                if m2.used_lenient or not m2.used_redecided:
                    sh.violation('bare-hardline-in-flat-group', 'a bare HARDLINE was rendered inside a group / fill item laid out flat: %s -> %r' % (D.show(term), st.text()), case)
                sh.counters['streams accepted only by the lenient reading'] += 1
            else:
                sh.violation(classify(term), 'the emitted layout is not one the document denotes: %s at width %d frac %s (%s) -> %r' % (D.show(term), width, frac, strat, st.text()), case)
                return None
        else:
            sh.counters['streams accepted by the strict reading'] += 1
            sh.counters['matcher nodes'] += m.nodes
    except R.Budget:
        sh.counters['matcher budget exhausted'] += 1
        return None
    msg = R.render_check(st.text(), default_render_to_str(iter(sdocs)))
    if msg:
        sh.violation('renderer-changed-text', msg + ' for ' + D.show(term), case)
        return None
    sh.counters['renderings verified'] += 1
    if any(it[0] == 'push' for it in st.items):
        sh.counters['streams with annotations verified'] += 1
    if any(it[0] == 'nl' for it in st.items):
        sh.counters['multi-line layouts'] += 1
    return st


def nontrivial(term):
    return D.contains(term, ('group', 'fill', 'fc', 'line', 'softline'))


def configs(rng, term, n):
    ws = D.interesting_widths(term)
    out = []
    for _ in range(n):
        if ws and rng.random() < 0.6:
            w = rng.choice(ws)
        else:
            w = rng.randint(1, 40) if rng.random() < 0.8 else rng.randint(41, 120)
        c = rng.random()
        f = rng.choice(FRACS) if c < 0.6 else (1.0 if c < 0.8 else rng.choice([0.75, 0.95, 0.25, 0.66, 0.05, round(rng.uniform(0.02, 1.0), 3)]))
        out.append((min(120, max(1, w)), f))
    return out


def run_shard(sh):
    quick = sh.tier == 'quick'
    S = 5 if quick else 6
    idx = 0
    leaves = D.FULL_LEAVES
    for n in range(1, S + 1):
        terms = D.enum_terms(n, leaves)
        for term in terms:
            idx += 1
            if not sh.mine(idx):
                continue
            if n == 6 and idx % 4:      # size 6 is sampled 1 in 4 (about 290 k terms)
                continue
            rng = V.rng_for('c04', sh.seed, idx)
            for (w, f) in configs(rng, term, 3 if quick else (4 if n >= 5 else 12)):
                for strat in ('smart', 'fast'):
                    check_one(sh, term, w, f, strat)
                    sh.case((term, w, f, strat), nontrivial(term))
            sh.counters['exhaustive terms'] += 1
            if idx % 5000 == 0:
                sh.sample({'term': D.show(term), 'size': n})
    if not quick:
        for term in D.enum_terms(3, D.FULL_LEAVES + D.EXTRA_LEAVES) + D.enum_terms(4, D.FULL_LEAVES + D.EXTRA_LEAVES):
            idx += 1
            if not sh.mine(idx):
                continue
            rng = V.rng_for('c04x', sh.seed, idx)
            for (w, f) in configs(rng, term, 4):
                for strat in ('smart', 'fast'):
                    check_one(sh, term, w, f, strat)
                    sh.case((term, w, f, strat), nontrivial(term))
            sh.counters['exhaustive terms (extra leaves)'] += 1
    for i in range(300 if quick else 10000):
        idx += 1
        if not sh.mine(idx):
            continue
        rng = V.rng_for('c04long', sh.seed, i)
        term = D.long_tail_terms(rng)
        fw = D.flat_width(term) or 40
        for w in (fw, max(1, fw - 1), max(1, fw - rng.randint(2, 30)), rng.randint(1, 120)):
            for strat in ('smart', 'fast'):
                check_one(sh, term, w, rng.choice(FRACS), strat)
                sh.case((term, w, strat), True)
        sh.counters['long-tail terms'] += 1
    for i in range(2500 if quick else 200000):
        idx += 1
        if not sh.mine(idx):
            continue
        rng = V.rng_for('c04lazy', sh.seed, i)
        term = D.lazy_body_terms(rng)
        for w in (rng.randint(1, 12), rng.randint(10, 40), 60):
            for strat in ('smart', 'fast'):
                check_one(sh, term, w, rng.choice(FRACS), strat)
                sh.case((term, w, strat), True)
        sh.counters['lazy-body terms (align / hang bodies mixing hardline, always_break and breaks)'] += 1
    for i in range(6000 if quick else 1500000):
        idx += 1
        if not sh.mine(idx):
            continue
        rng = V.rng_for('c04r', sh.seed, i)
        term = D.rand_term(rng, depth=rng.randint(2, 6))
        if D.size(term) > 120:
            continue
        for (w, f) in configs(rng, term, 3):
            for strat in ('smart', 'fast'):
                check_one(sh, term, w, f, strat)
                sh.case((term, w, f, strat), nontrivial(term))
        sh.counters['random terms'] += 1
        if i % 2500 == 0:
            sh.sample({'term': D.show(term)[:300], 'size': D.size(term)})


def finalize(m):
    for name in ('streams accepted by the strict reading', 'renderings verified', 'streams with annotations verified', 'multi-line layouts'):
        if not m.counters.get(name):
            m.inconclusive.append('monitor never reached: ' + name)
    tot = m.evaluations or 1
    if m.counters.get('matcher budget exhausted', 0) > 0.001 * tot:
        m.inconclusive.append('matcher budget exhausted on %d of %d cases' % (m.counters['matcher budget exhausted'], tot))


def replay(wit):
    from ..runner import Shard
    sh = Shard('replay', 0, 0, 1)
    c = wit['case']
    term = D.from_json(c['term'])
    print('document:', D.show(term))
    print('width=%s ribbon_frac=%s strategy=%s' % (c['width'], c['ribbon_frac'], c['strategy']))
    st = check_one(sh, term, c['width'], c['ribbon_frac'], c['strategy'])
    try:
        sdocs = list(layouts()[c['strategy']](D.build(term), width=c['width'], ribbon_frac=c['ribbon_frac']))
        print('stream  :', sdocs)
        print('text    :\n' + R.Stream(sdocs).text())
    except Exception as e:
        print('raised  :', repr(e))
    for v in sh.violations:
        print('VIOLATED', v['key'], v['what'][:600])
    if not sh.violations:
        print('holds on this case')
    return not sh.violations


LEVEL = 'exploration'
TECHNIQUE = 'runtime oracle: layout-set membership matcher (reference semantics of the document algebra) over the real SDoc stream, bounded-exhaustive document terms + random'
LEVEL_TEXT = ('Every document term up to 5 nodes (thorough 6, sampled 1:4 at size 6) and random larger ones are built through the public combinators and laid out by the real engine under both strategies '
              'at boundary-directed widths and several ribbon fractions; a reference matcher decides whether the emitted stream is in the layout set the term denotes, and the renderer and annotation nesting are checked on every stream.')
LEVEL_NOTE = 'Trusts vlib/refsem.py as the reading of the statement (strict) - validated by mutation of the engine; widths/fractions are sampled per term, not exhaustive.'
ANCHORS = ['layout.best_layout', 'layout.smart_fitting_predicate', 'layout.fast_fitting_predicate', 'doctypes.Concat.normalize', 'doctypes.Nest.normalize', 'doctypes.Group.normalize', 'doctypes.AlwaysBreak.normalize', 'doctypes.Fill.normalize', 'doctypes.FlatChoice.normalize', 'doc.align.<locals>.evaluator', 'render.default_render_to_stream']
