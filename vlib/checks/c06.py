"""C06 - whatever fits on one line is put on one line (see _fit.py)."""
from . import _fit

RULE = ('same term workload as C05 judged under the C06 obligation (a broken group without forced break would not have fitted), plus random built-in values whose unbounded rendering is one line of L columns, '
        'printed by pformat at width = ribbon_width in {L, L+1, L+2, 2L, L+random}; a case is (term, width, fraction, strategy) or (value, width)')
ASSUMPTIONS = ['the statement\'s clause (iii) is read to cover the whole region the strategy looks ahead over (same line; under smart also following more-indented lines)',
               'would_fit uses true columns from the stream and assumes following groups flat, as the statement says ("what follows it on the same line, out flat")']


def run_shard(sh):
    _fit.run_terms(sh, 'C06')
    _fit.one_line_values(sh)


def finalize(m):
    for name in ('layouts judged', 'witness: broken_groups', 'witness: c06_obligations', 'witness: smart_only', 'witness: forced_later', 'one-line values verified at exactly L', 'one-line values verified with ribbon_width != width'):
        if not m.counters.get(name):
            m.inconclusive.append('monitor never reached: ' + name)
    if m.counters.get('matcher budget exhausted', 0) > 0.001 * (m.evaluations or 1):
        m.inconclusive.append('matcher budget exhausted too often')


def replay(wit):
    return _fit.replay_term('C06', wit)


LEVEL = 'exploration'
TECHNIQUE = 'runtime oracle: recovered group decisions + independent fit model (would_fit) as obligation on every broken group; pformat-level one-line check at widths >= L'
LEVEL_TEXT = ('Same exploration as C05 under the converse obligation: a layout passes only if some assignment consistent with the stream breaks no unforced group that the independent fit model says would have fitted '
              '(page/ribbon, smart look-ahead, forced break ahead). Plus random values printed at width = ribbon >= the length of their one-line form.')
LEVEL_NOTE = 'Existential witness; the fit model is our reading of the rule on the un-normalised term; nothing is demanded below L.'
ANCHORS = ['layout.best_layout', 'layout.smart_fitting_predicate', 'layout.fast_fitting_predicate', 'prettyprinter.sequence_of_docs']
