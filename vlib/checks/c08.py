"""C08 - instances of subclasses of built-in types keep their class.

Oracle: eval(output) with the defining module in scope; the object found at the value's position must have
exactly the subclass as its type and the same underlying built-in value (read through the base class's own
methods, so overridden __repr__/__str__/__eq__ cannot fool it); AST shape: the outermost node at the position is
a Call of the subclass's module.qualname.
"""
import ast
import collections
import enum

from .. import monitors as M
from .. import values as V

RULE = ('a family of subclass definitions per built-in base (plain, __repr__ overridden, __str__ overridden, both, nested qualname; IntEnum/str-Enum/IntFlag members) x '
        'values of the base type (empty, 1-element, nested, strings that split or are too wide for the rest of the line, special floats) x 5 placement contexts x widths; '
        'a case is (class, value, context, configuration); non-trivial = class overrides a dunder, or value is empty, or output has several lines')
ASSUMPTIONS = ['subclasses keep the base constructor signature (Sub(base_value) reconstructs)', 'CPython eval/ast']

BASES = [list, tuple, set, frozenset, dict, str, bytes, int, float]
FAMILY = {}          # base -> [classes]
CLASSES = {}         # name -> class


class Outer:
    pass


def _repr_override(base):
    def __repr__(self):
        return 'R<%s>' % base.__repr__(self)
    return __repr__


def _str_override(base):
    def __str__(self):
        return 'S<custom str>'
    return __str__


def _make_family():
    for base in BASES:
        b = base.__name__
        fam = []
        for variant in ('Plain', 'Repr', 'Str', 'Both', 'Nested', 'Ducky', 'Ducky2'):
            ns = {'__module__': __name__}
            if variant == 'Ducky':
                # class attributes that OTHER protocols look for (namedtuple, struct sequence, enum, attrs, pytz): an ordinary subclass that
                # happens to carry them is still an ordinary subclass
                ns.update({'_fields': ('a', 'b'), '_name_': 'N', '_value_': 0, 'zone': 'UTC', '__attrs_attrs__': (), '_field_defaults': {}})
            if variant == 'Ducky2':
                ns.update({'n_fields': 2, 'n_sequence_fields': 2, 'n_unnamed_fields': 0, '_fields': ('a',), '__match_args__': ('a', 'b')})
            if variant in ('Repr', 'Both'):
                ns['__repr__'] = _repr_override(base)
            if variant in ('Str', 'Both'):
                ns['__str__'] = _str_override(base)
            name = b.title() + variant
            if variant == 'Nested':
                ns['__qualname__'] = 'Outer.' + name
                cls = type(name, (base,), ns)
                setattr(Outer, name, cls)
            else:
                ns['__qualname__'] = name
                cls = type(name, (base,), ns)
                globals()[name] = cls
            fam.append(cls)
            CLASSES[cls.__qualname__] = cls
        FAMILY[base] = fam


_make_family()


def _make_second_level():
    """a subclass of a subclass for every base (still must print under ITS qualified name)"""
    for base in BASES:
        parent = FAMILY[base][0]
        name = base.__name__.title() + 'Grandchild'
        cls = type(name, (parent,), {'__module__': __name__, '__qualname__': name})
        globals()[name] = cls
        FAMILY[base].append(cls)
        CLASSES[name] = cls


_make_second_level()


class IE(enum.IntEnum):
    A = 1
    B = 2
    NEG = -5


class SE(str, enum.Enum):
    X = 'x'
    Q = "it's"
    LONG = 'lorem ipsum dolor sit amet ' * 3


class IF(enum.IntFlag):
    R = 4
    W = 2


ENUM_MEMBERS = [IE.A, IE.B, IE.NEG, SE.X, SE.Q, SE.LONG, IF.R, IF.W]
for _c in (IE, SE, IF):
    CLASSES[_c.__qualname__] = _c

NT = collections.namedtuple('NT', 'a b')
NS = {'vlib': __import__('vlib')}
CONTEXTS = ['top', 'among', 'dictvalue', 'dictkey', 'callarg']


def base_values(base, rng, quick):
    if base is list:
        vs = [[], [1], [1, 'a'], [[], [1, 2]], ['x' * 30, 'y' * 30, 'z' * 30], list(range(12))]
    elif base is tuple:
        vs = [(), (1,), (1, 'a'), ((), (1,)), ('x' * 40, 'y' * 40), tuple(range(12)), ('lorem ipsum dolor sit amet ' * 4,), ([1, 2],)]
    elif base is set:
        vs = [set(), {1}, {1, 'a'}, {'x' * 40, 'y' * 40}, set(range(12))]
    elif base is frozenset:
        vs = [frozenset(), frozenset([1]), frozenset([1, 'a']), frozenset(['x' * 40, 'y' * 40])]
    elif base is dict:
        vs = [{}, {1: 2}, {'a': 1, 'b': [1, 2]}, {1: 2, 3: 4, 5: 6}, {'k' * 30: 'v' * 40}, {'b': 1, 'a': 2}, {3: 'c', 1: 'a', 2: 'b', 0: 'z'}]
    elif base is str:
        vs = ['', 'a', "'", '"', 'it\'s "x"', '\\', '\n', 'é', 'a' * 25, 'a' * 60, 'lorem ipsum dolor sit amet ' * 4, 'x' * 200]
        vs += [V.rand_text(rng) for _ in range(2 if quick else 8)]
    elif base is bytes:
        vs = [b'', b'a', b"'", b'"', b'\\', b'\n', b'\xe9\x00', b'a' * 25, b'a' * 60, b'lorem ipsum dolor sit amet ' * 4, b'it\'s "x" ' * 9, b'\xff\'\xfe"' * 3]
    elif base is int:
        vs = [0, 1, -1, 10 ** 30, -2 ** 64, 255]
    elif base is float:
        vs = [0.0, -0.0, 1.5, -2.25, 1e300, 5e-324, float('inf'), float('-inf'), float('nan'), 1e22, -1.5e-7, 123456789.125]
    return vs


def place(ctx, v):
    if ctx == 'top':
        return v
    if ctx == 'among':
        return [0, v, 1]
    if ctx == 'dictvalue':
        return {0: v}
    if ctx == 'dictkey':
        return {v: 0}
    if ctx == 'callarg':
        return NT(a=v, b=0)


def pick(ctx, res):
    if ctx == 'top':
        return res
    if ctx == 'among':
        return res[1]
    if ctx == 'dictvalue':
        return res[0]
    if ctx == 'dictkey':
        return next(iter(res))
    if ctx == 'callarg':
        return res.a


def locate(ctx, body):
    if ctx == 'top':
        return body
    if ctx == 'among':
        return body.elts[1]
    if ctx == 'dictvalue':
        return body.values[0]
    if ctx == 'dictkey':
        return body.keys[0]
    if ctx == 'callarg':
        return body.keywords[0].value


def dotted(n):
    if isinstance(n, ast.Name):
        return n.id
    if isinstance(n, ast.Attribute):
        b = dotted(n.value)
        return None if b is None else b + '.' + n.attr
    return None


def overrides_repr(cls):
    for base in BASES:
        if issubclass(cls, base):
            return cls.__repr__ is not base.__repr__
    return False


def check_one(sh, clsname, value, ctx, cfg, desc):
    cls = CLASSES[clsname]
    case = {'class': clsname, 'value': desc, 'context': ctx, 'cfg': cfg}
    tag = '-repr-override' if overrides_repr(cls) else ''
    try:
        text, ws = M.pp(place(ctx, value), **cfg)
    except M.ContractViolation as e:
        sh.violation(e.key, e.what, dict(case, detail=e.detail))
        return None
    except M.MonitorAbort as e:
        sh.violation('monitor-abort', str(e), case)
        return None
    except Exception as e:
        sh.violation('pformat-raised', repr(e), case)
        return None
    if ws:
        sh.violation('warning' + tag, ws[0][1][-300:], case)
        return text
    try:
        res = V.evaluate(text, NS)
        obj = pick(ctx, res)
    except Exception as e:
        sh.violation('eval-error' + tag, 'output does not evaluate (%r): %r' % (e, text[:300]), case)
        return text
    if type(obj) is not cls:
        sh.violation('class-lost' + tag, 'evaluates to %s instead of %s: %r' % (type(obj).__name__, cls.__qualname__, text[:300]), case)
        return text
    cg, cw = V.canon(V.base_value(obj)), V.canon(V.base_value(value))
    if cfg.get('sort_dict_keys'):
        cg, cw = V.canon_unordered_dicts(cg), V.canon_unordered_dicts(cw)     # key order is C01's business
    if cg != cw:
        sh.violation('value-changed' + tag, 'underlying value %r became %r: %r' % (V.base_value(value), V.base_value(obj), text[:300]), case)
        return text
    node = locate(ctx, ast.parse('(' + text + '\n)', mode='eval').body)
    if isinstance(node, ast.UnaryOp):
        node = node.operand
    want = cls.__module__ + '.' + cls.__qualname__
    if isinstance(cls, type) and issubclass(cls, enum.Enum) and isinstance(node, ast.Attribute):
        pass    # Enum member printed as Class.MEMBER is an equally valid reconstruction
    elif not (isinstance(node, ast.Call) and dotted(node.func) == want):
        sh.violation('not-a-call-of-the-subclass' + tag, 'expected a call of %s at the position: %r' % (want, text[:300]), case)
        return text
    sh.counters['instances verified'] += 1
    sh.see('classes verified', clsname)
    if '\n' in text:
        sh.counters['multi-line outputs'] += 1
    if isinstance(node, ast.Call) and node.args and isinstance(node.args[0], ast.Constant) and isinstance(node.args[0].value, (str, bytes)):
        seg = ast.get_source_segment('(' + text + '\n)', node.args[0]) or ''
        if seg.count('\n'):
            sh.counters['split string literals inside a subclass call'] += 1
    return text


def configs(rng, quick, value):
    L = len(repr(V.base_value(value))) if not isinstance(value, (set, frozenset)) else 20
    cfgs = [{'width': 79}, {'width': rng.choice([1, 5, 10, 20, 40]), 'ribbon_width': rng.choice([5, 20, 71]), 'indent': rng.choice([1, 2, 4, 8])},
            {'width': rng.choice([20, 40, 79]), 'sort_dict_keys': True}]
    cfgs += [{'width': w, 'ribbon_width': w} for w in (L + rng.randint(0, 30), max(1, L - rng.randint(0, 10)))]
    if not quick:
        cfgs += [{'width': w, 'ribbon_width': w} for w in range(max(1, L - 3), L + 40, 3)]
    return cfgs


def run_shard(sh):
    M.install_warning_recorder()
    M.install_string_contracts()
    quick = sh.tier == 'quick'
    idx = 0
    for base in BASES:
        for cls in FAMILY[base]:
            rng0 = V.rng_for('c08v', sh.seed, cls.__qualname__)
            for bv in base_values(base, rng0, quick):
                for ctx in CONTEXTS:
                    if ctx == 'dictkey':
                        try:
                            hash(cls(bv))
                        except TypeError:
                            continue
                    idx += 1
                    if not sh.mine(idx):
                        continue
                    rng = V.rng_for('c08', sh.seed, idx)
                    value = cls(bv)
                    for cfg in configs(rng, quick, value):
                        text = check_one(sh, cls.__qualname__, value, ctx, cfg, repr(bv))
                        nontriv = cls.__qualname__.endswith(('Repr', 'Str', 'Both')) or len(bv) == 0 if hasattr(bv, '__len__') else cls.__qualname__.endswith(('Repr', 'Str', 'Both'))
                        sh.case((cls.__qualname__, repr(bv), ctx, sorted(cfg.items())), bool(nontriv or (text and '\n' in text)))
                    if idx % 400 == 0:
                        sh.sample({'class': cls.__qualname__, 'value': repr(bv)[:60], 'context': ctx})
    # the "too wide for the rest of the line but fits a line of its own" sweep
    for base in (str, bytes):
        for cls in FAMILY[base]:
            for a in range(5, 40, 5 if quick else 2):
                for b in range(5, 45, 7 if quick else 3):
                    idx += 1
                    if not sh.mine(idx):
                        continue
                    key = 'k' * a
                    inner = cls(('x' * b) if base is str else (b'x' * b))
                    for width in (20, 40, 60):
                        cfg = {'width': width, 'ribbon_width': width}
                        text = M.pp({key: inner}, **cfg)[0]
                        check_one(sh, cls.__qualname__, inner, 'dictvalue', cfg, repr(V.base_value(inner)))
                        # same again but with the str key (position = first dict value)
                        case = {'class': cls.__qualname__, 'value': repr(V.base_value(inner)), 'context': 'strkey-dictvalue', 'cfg': cfg, 'keylen': a}
                        try:
                            obj = next(iter(V.evaluate(text, NS).values()))
                            if type(obj) is not cls:
                                sh.violation('class-lost-wide-string', 'wrapper lost for a %s too wide for its line: %r' % (cls.__qualname__, text[:200]), case)
                            elif V.base_value(obj) != V.base_value(inner):
                                sh.violation('value-changed', 'value changed: %r' % text[:200], case)
                            else:
                                sh.counters['wide-string sweep verified'] += 1
                        except Exception as e:
                            sh.violation('eval-error', '%r: %r' % (e, text[:200]), case)
                        sh.case((cls.__qualname__, a, b, width))
    # enum-style members
    for m in ENUM_MEMBERS:
        for ctx in CONTEXTS:
            idx += 1
            if not sh.mine(idx):
                continue
            rng = V.rng_for('c08e', sh.seed, idx)
            for cfg in configs(rng, quick, m):
                check_one(sh, type(m).__qualname__, m, ctx, cfg, repr(V.base_value(m)))
                sh.case((type(m).__qualname__, m.name, ctx, sorted(cfg.items())))


def finalize(m):
    for name in ('instances verified', 'multi-line outputs', 'split string literals inside a subclass call', 'wide-string sweep verified'):
        if not m.counters.get(name):
            m.inconclusive.append('monitor never reached: ' + name)
    want = set(CLASSES)
    seen = m.sets.get('classes verified', set())
    if want - seen:
        m.inconclusive.append('classes never verified: %s' % sorted(want - seen)[:10])


def replay(wit):
    M.install_warning_recorder()
    M.install_string_contracts()
    from ..runner import Shard
    sh = Shard('replay', 0, 0, 1)
    c = wit['case']
    cls = CLASSES[c['class']]
    value = cls(eval(c['value'], {'inf': float('inf'), 'nan': float('nan'), 'frozenset': frozenset, 'set': set}))
    ctx = c['context']
    if ctx == 'strkey-dictvalue':
        import prettyprinter
        print(prettyprinter.pformat({'k' * c['keylen']: value}, **c['cfg']))
        ctx = 'dictvalue'
    text = check_one(sh, c['class'], value, ctx, c['cfg'], c['value'])
    print('class %s value %s context %s cfg %s' % (c['class'], c['value'][:100], ctx, c['cfg']))
    print('output:', text)
    for v in sh.violations:
        print('VIOLATED', v['key'], v['what'][:600])
    if not sh.violations:
        print('holds on this case')
    return not sh.violations


LEVEL = 'exploration'
TECHNIQUE = 'runtime oracle: eval round-trip with type identity and base-class value comparison, generated subclass family x values x contexts x widths'
LEVEL_TEXT = ('45 generated subclasses (5 variants of 9 built-in bases) plus IntEnum/str-Enum/IntFlag members are instantiated over boundary values of the base type and printed in five '
              'contexts at boundary-directed widths; the evaluated result must be an instance of exactly that subclass with the same underlying value and the text must be a call of its qualified name.')
LEVEL_NOTE = 'The class family is fixed (not random programs); overriding dunders other than __repr__/__str__ is outside the generator.'
ANCHORS = ['prettyprinter.pretty_bracketable_iterable', 'prettyprinter.pretty_dict', 'prettyprinter.pretty_str', 'prettyprinter.pretty_int', 'prettyprinter.pretty_float', 'prettyprinter.pretty_frozenset', 'prettyprinter.general_identifier']
