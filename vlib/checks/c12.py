"""C12 - printing terminates and its work grows polynomially with the input.

Monitor: sys.monitoring LINE events counted for code objects whose file is under the package directory (all others DISABLEd);
counts are deterministic. For every input family F the sizes n, 2n, 4n, 8n are printed in turn; the callback raises
StepBudgetExceeded (a BaseException, so the package cannot swallow it) once the count passes 64 x steps(previous size)
(absolute cap for the first size): an exponential family is refuted in bounded time instead of hanging the check - the
bounded-progress restatement of "terminates". 64 per doubling is degree 6, far above anything legitimate observed (<= 3.6).
"""
import collections
import collections.abc
import sys

import prettyprinter
from prettyprinter import comment, trailing_comment

from .. import monitors as M
from .. import values as V

RULE = ('parametrised families F(n) at n, 2n, 4n, 8n: fixed families (nested list/tuple/dict/call, commented nestings at every level, long flat list/dict/set, long strings with and without '
        'break opportunities at top level and under 30 nestings, bytes, all-escape strings, wide dicts of long keys) and seeded random wrapper recipes (1..3 wrappers, each using its argument once, '
        'applied n times), at widths {1,20,79} and both sort settings; a case is (family, width, sort); non-trivial = the largest size executed more than 10 000 package lines')
ASSUMPTIONS = ['LINE events inside the package measure work; work done in C (regex, repr, list copies) is invisible', 'every wrapper uses its argument once, so value size is linear in n']
FACTOR = 64
FIRST_CAP = 3_000_000
NT = collections.namedtuple('NT', 'a b')

WRAPPERS = {
    'L': lambda v: [v],
    'L3': lambda v: [1, v, 2],
    'T': lambda v: (v,),
    'T2': lambda v: (v, 'x'),
    'D': lambda v: {'k': v},
    'D3': lambda v: {'a': 1, 'k': v, 'z': 2},
    'ST': lambda v: ({1, 2}, v),
    'NT': lambda v: NT(a=v, b=0),
    'OD': lambda v: collections.OrderedDict([('k', v)]),
    'DQ': lambda v: collections.deque([v], maxlen=3),
    'CL': lambda v: [comment(v, 'note on element')],
    'CT': lambda v: (comment(v, 'c'), 1),
    'CDK': lambda v: {comment('key', 'about the key'): v},
    'CDV': lambda v: {'k': comment(v, 'about the value')},
    'CNT': lambda v: NT(a=comment(v, 'arg comment'), b=0),
    'TCL': lambda v: trailing_comment([v], 'trailing'),
    'TCD': lambda v: trailing_comment({'k': v}, 'trailing'),
    # further kinds (stdlib call-style types, subclasses, user types, tuple keys)
    'DD': lambda v: collections.defaultdict(list, {'k': v}),
    'CM': lambda v: collections.ChainMap({'k': v}, {}),
    'NS': lambda v: __import__('types').SimpleNamespace(a=v, b=1),
    'EXC': lambda v: ValueError(v, 'msg'),
    'PART': lambda v: __import__('functools').partial(dict, a=v),
    'MP': lambda v: __import__('types').MappingProxyType({'k': v}),
    'CNT': lambda v: NT(a=comment(v, 'arg comment'), b=0),
    'TK': lambda v: {(1, 'key'): v, (0, 'other'): 0},
    'LSUB': lambda v: MyList([v]),
    'DSUB': lambda v: MyDict({'k': v}),
    'UT': lambda v: UserT(v, key=1),
    'UT1': lambda v: UserT(v),                 # sole positional argument that is not a list/dict/tuple: the non-hugging path
    'UT2': lambda v: UserT(v, 2),
    'UTK': lambda v: UserT(key=v),
    'EXC1': lambda v: ValueError(v),
    'CM1': lambda v: collections.ChainMap(v) if isinstance(v, collections.abc.Mapping) else collections.ChainMap({'k': v}),
    'FZ1': lambda v: (frozenset([v]) if _hashable(v) else frozenset([1]), v)[0 if _hashable(v) else 1],
    'OD1': lambda v: collections.OrderedDict(k=v),
    'DQ1': lambda v: collections.deque([v]),
    'UTC': lambda v: UserT(comment(v, 'note'), key=1),
    'DC': lambda v: DataC(v),
    'FST': lambda v: (frozenset([1]), v),
    'LTS': lambda v: [({3, 4}, v)],
}


def _hashable(v):
    try:
        hash(v)
        return True
    except TypeError:
        return False


class MyList(list):
    pass


class MyDict(dict):
    pass


class UserT:
    def __init__(self, *args, **kwargs):
        self.args, self.kwargs = args, kwargs


from prettyprinter import register_pretty as _reg, pretty_call_alt as _pca


@_reg(UserT)
def _pretty_usert(v, ctx):
    return _pca(ctx, UserT, args=v.args, kwargs=list(v.kwargs.items()))


import dataclasses as _dc


@_dc.dataclass
class DataC:
    payload: object
    flag: int = 0


prettyprinter.install_extras(['dataclasses'])
EXTRA_FAMILIES = [['UT1'], ['UT2'], ['UTK'], ['EXC1'], ['CM1'], ['FZ1'], ['OD1'], ['DQ1'], ['UT1', 'L'], ['EXC1', 'UT1'], ['DD'], ['CM'], ['NS'], ['EXC'], ['PART'], ['MP'], ['TK'], ['LSUB'], ['DSUB'], ['UT'], ['UTC'], ['DC'], ['FST'], ['LTS'],
                  ['DD', 'T'], ['NS', 'CL'], ['EXC', 'D'], ['TK', 'L'], ['UTC', 'CL']]
DEPTH_FAMILIES = [['L'], ['T'], ['D'], ['D3'], ['ST'], ['NT'], ['OD'], ['L', 'D'], ['T2', 'NT', 'L3'], ['CL'], ['CT'], ['CDK'], ['CNT'], ['TCL'], ['TCD'],
                  ['CL', 'D'], ['CDK', 'L'], ['CNT', 'TCL'], ['DQ']]


def nested(recipe, n, seed='leaf'):
    v = seed
    for i in range(n):
        for w in reversed(recipe):
            v = WRAPPERS[w](v)
    return v


def length_families():
    return {
        'flat-list-ints': lambda n: list(range(n)),
        'flat-list-strs': lambda n: ['item %d' % i for i in range(n)],
        'flat-tuple': lambda n: tuple(range(n)),
        'flat-dict': lambda n: {i: str(i) for i in range(n)},
        'flat-set': lambda n: set(range(n)),
        'flat-commented-list': lambda n: [comment(i, 'c%d' % i) for i in range(n)],
        'long-string-words': lambda n: 'lorem ipsum ' * n,
        'long-string-nobreak': lambda n: 'x' * (n * 4),
        'long-bytes': lambda n: b'ab cd ' * n,
        'all-escapes': lambda n: '\n\'"\\' * n,
        'long-string-under-30-levels': lambda n: nested(['L'], 30, 'word ' * n),
        'nobreak-string-under-30-levels': lambda n: nested(['D'], 30, 'y' * (n * 3)),
        'wide-escapes-under-30-levels': lambda n: nested(['L'], 30, '\U000e0001\x00\u2028 ' * n),
        'astral-escapes-nobreak-under-30-levels': lambda n: nested(['D'], 30, '\U000e0001' * n),
        'astral-escapes-under-12-levels': lambda n: nested(['L'], 12, 'ab \U000e0001\U000e0002 ' * n),
        'wide-dict-long-keys': lambda n: {('key %d ' % i) * 8: i for i in range(n)},
        'list-of-dicts': lambda n: [{'id': i, 'name': 'n%d' % i} for i in range(n)],
        'long-comment-text': lambda n: [comment(1, 'word ' * n)],
    }


def count_steps(value, cfg, budget):
    """(steps, status) status in ok / budget / warning / error"""
    M.take_warnings()
    sc = M.StepCounter(budget=budget)
    try:
        with sc:
            prettyprinter.pformat(value, **cfg)
    except M.StepBudgetExceeded:
        return sc.n, 'budget'
    except RecursionError:
        return sc.n, 'recursion'
    except Exception as e:
        return sc.n, 'error:%r' % (e,)
    ws = M.take_warnings()
    if ws:
        return sc.n, 'warning:' + ws[0][1][:100]
    return sc.n, 'ok'


def run_family(sh, name, make, sizes, cfg, recipe=None):
    case = {'family': name, 'recipe': recipe, 'sizes': sizes, 'cfg': cfg}
    prev = None
    steps = []
    for n in sizes:
        budget = FIRST_CAP if prev is None else max(FACTOR * prev, 20000)
        try:
            value = make(n)
        except RecursionError:
            sh.counters['families too deep to build'] += 1
            return
        s, status = count_steps(value, cfg, budget)
        steps.append(s)
        if status == 'budget':
            key = 'superpolynomial-growth'
            if recipe and 'CDV' in recipe:
                key = 'commented-dict-value-nesting'
            what = ('family %s: printing size %d took more than %d package lines (= %d x the %s lines of size %s)' % (name, n, budget, FACTOR, prev, sizes[len(steps) - 2])
                    if prev is not None else 'family %s: the first size %d needs more than %d lines' % (name, n, FIRST_CAP))
            sh.violation(key, what + '; steps so far %r' % (steps,), case)
            return steps
        if status.startswith('error'):
            sh.violation('print-raised', 'family %s size %d: pformat raised %s' % (name, n, status[6:200]), case)
            return steps
        if status.startswith('warning'):
            sh.violation('fallback-warning', 'family %s size %d: %s' % (name, n, status[8:200]), case)
            return steps
        if status != 'ok':
            sh.counters['family runs not judged (%s)' % status.split(':')[0]] += 1
            return steps
        prev = s
    ratios = [round(b / a, 2) for a, b in zip(steps, steps[1:]) if a]
    sh.counters['families within the growth bound'] += 1
    sh.counters['package lines counted'] += sum(steps)
    if ratios:
        sh.notes.setdefault('max_ratio', 0)
        sh.notes['max_ratio'] = max(sh.notes['max_ratio'], max(ratios))
        sh.see('growth factors per doubling (rounded)', round(max(ratios)))
    if steps and steps[-1] > 10000:
        sh.counters['families whose largest size ran > 10000 lines'] += 1
    return steps


def cfgs_for(rng, quick):
    allc = [{'width': w, 'sort_dict_keys': s} for w in (1, 20, 79) for s in (False, True)]
    allc += [{'width': 200, 'ribbon_width': 190}, {'width': 79, 'max_seq_len': 3}, {'width': 40, 'depth': 1000, 'sort_dict_keys': True}, {'width': 300, 'indent': 8}]
    return rng.sample(allc, 1 if quick else 4)


def run_shard(sh):
    sys.setrecursionlimit(30000)
    M.install_warning_recorder()
    quick = sh.tier == 'quick'
    idx = 0
    jobs = []
    for recipe in DEPTH_FAMILIES:
        jobs.append(('depth:' + '+'.join(recipe), recipe, [8, 16, 32, 64] if len(recipe) == 1 else [4, 8, 16, 32]))
    for recipe in EXTRA_FAMILIES:
        jobs.append(('depth:' + '+'.join(recipe), recipe, [4, 8, 16, 32]))
    for name in length_families():
        jobs.append(('length:' + name, None, [100, 200, 400, 800] if not name.startswith('long-comment') else [50, 100, 200, 400]))
    nrec = 40 if quick else 2000
    for i in range(nrec):
        rng = V.rng_for('c12r', sh.seed, i)
        recipe = [rng.choice([w for w in WRAPPERS if w != 'CDV']) for _ in range(rng.randint(1, 3))]
        if 'EXC' in recipe and len(recipe) > 1:
            recipe = [w for w in recipe if w != 'EXC'] or ['EXC']
        jobs.append(('recipe:' + '+'.join(recipe), recipe, [4, 8, 16, 32] if len(recipe) > 1 else [8, 16, 32, 64]))
    # the canonical family of the listed finding (demonstrated, not assumed)
    jobs.append(('depth:CDV', ['CDV'], [4, 8, 16]))
    jobs.append(('depth:CDV+L', ['CDV', 'L'], [4, 8, 16]))
    fams = length_families()
    for name, recipe, sizes in jobs:
        idx += 1
        if not sh.mine(idx):
            continue
        rng = V.rng_for('c12c', sh.seed, idx)
        for cfg in cfgs_for(rng, quick):
            if recipe is not None:
                make = lambda n, r=recipe: nested(r, n)
            else:
                make = fams[name.split(':', 1)[1]]
            steps = run_family(sh, name, make, sizes, cfg, recipe)
            sh.case((name, sorted(cfg.items())), nontrivial=bool(steps and steps[-1] > 10000))
            if idx % 9 == 0:
                sh.sample({'family': name, 'sizes': sizes, 'cfg': cfg, 'package lines': steps})


def finalize(m):
    for name in ('families within the growth bound', 'families whose largest size ran > 10000 lines', 'package lines counted'):
        if not m.counters.get(name):
            m.inconclusive.append('monitor never reached: ' + name)
    notjudged = sum(v for k, v in m.counters.items() if k.startswith('family runs not judged'))
    if notjudged > 0.05 * max(1, m.evaluations):
        m.inconclusive.append('%d family runs could not be judged (warnings/recursion)' % notjudged)


def replay(wit):
    sys.setrecursionlimit(30000)
    M.install_warning_recorder()
    from ..runner import Shard
    sh = Shard('replay', 0, 0, 1)
    c = wit['case']
    if c['recipe'] is not None:
        make = lambda n, r=c['recipe']: nested(r, n)
    else:
        make = length_families()[c['family'].split(':', 1)[1]]
    steps = run_family(sh, c['family'], make, c['sizes'], c['cfg'], c['recipe'])
    print('family %s sizes %s cfg %s -> package lines %s' % (c['family'], c['sizes'], c['cfg'], steps))
    for v in sh.violations:
        print('VIOLATED', v['key'], v['what'][:600])
    if not sh.violations:
        print('holds on this case')
    return not sh.violations


LEVEL = 'exploration'
TECHNIQUE = 'interpreter-level instrumentation: sys.monitoring LINE-event counter restricted to the package with a growth budget that aborts the run (bounded-progress restatement of termination)'
LEVEL_TEXT = ('Each input family is printed at four doubling sizes under a line-event counter; a size that needs more than 64 times the lines of the previous one (or the first size more than 3 M lines) '
              'is a violation, reached in bounded time because the counter aborts the print. Fixed depth/length families and seeded random wrapper recipes at three widths and both sort settings.')
LEVEL_NOTE = 'Polynomial growth is judged as "factor <= 64 per doubling" on the sizes tried (up to depth 64 / length 800); unbounded termination cannot be decided by a finite run.'
ANCHORS = ['doctypes.FlatChoice.normalize', 'prettyprinter.pretty_dict', 'prettyprinter.str_to_lines', 'prettyprinter.sequence_of_docs', 'layout.best_layout']
