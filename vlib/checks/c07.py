"""C07 - bundled printers are total, and faithful for standard-library types.

Monitors: the warning recorder (any "Falling back to default repr" warning is a violation - the printer failed
internally), and an eval oracle: the output evaluated with the types' modules in scope must reconstruct an equal
object (type identity plus a structural key no stricter than the type's own equality).
"""
import collections
import datetime as dt
import enum
import functools
import pathlib
import types
import uuid

import pytz

from .. import monitors as M
from .. import values as V

RULE = ('per-type generators with boundary values for datetime/date/time/timedelta/timezone/pytz zones/OrderedDict/defaultdict/deque/Counter/ChainMap/'
        'mappingproxy/UUID/Enum members/SimpleNamespace/namedtuples/partial/exceptions/pure paths, each in 5 nesting contexts x layout configurations; '
        'a case is (type, instance, context, configuration); distinct by (type name, repr, context, configuration); all are non-trivial (each exercises a bundled printer)')
ASSUMPTIONS = ['equality per type: == plus type identity, with structural keys where == is identity or lossy (exceptions by (type,args), partial by (func,args,keywords), '
               'deque+maxlen, defaultdict+factory, aware datetimes ==, utcoffset, fold, tzname)',
               'composite Flag values are not members and are not judged']


class Color(enum.Enum):
    RED = 1
    GREEN = 'g'
    ALIAS = 1


class IE(enum.IntEnum):
    A = 1
    B = -2


class SE(str, enum.Enum):
    X = 'x'


class Fl(enum.Flag):
    A = 1
    B = 2


class IFl(enum.IntFlag):
    R = 4
    W = 2


class TupleValued(enum.Enum):
    PAIR = (1, 'a')
    NESTED = ((1, 2), [3])


Renamed = collections.namedtuple('Renamed', ['class', 'def', 'x', 'x'], rename=True)


class PointSub(collections.namedtuple('PointBase', 'x y')):
    __slots__ = ()


PointSub.__qualname__ = 'PointSub'
# field / attribute names that collide with parameter names used inside the package's own helper functions
COLLIDING = ['fn', 'ctx', 'args', 'kwargs', 'value', 'type', 'doc', 'indent', 'self', 'cls', 'fndoc', 'argdocs', 'kwargdocs', 'hug_sole_arg', 'trailing_comment',
             'left', 'right', 'docs', 'dangle', 'key', 'default', 'width', 'depth', 'object', 'stream', 'end', 'style']
Collide1 = collections.namedtuple('Collide1', COLLIDING[:9])
Collide2 = collections.namedtuple('Collide2', COLLIDING[9:18])
Collide3 = collections.namedtuple('Collide3', COLLIDING[18:])
Point0 = collections.namedtuple('Point0', '')
Point1 = collections.namedtuple('Point1', 'x')
Point3 = collections.namedtuple('Point3', 'x y z')
NT = collections.namedtuple('NT', 'a b')

import fractions
NS = {'vlib': __import__('vlib'), 'fractions': fractions, 'time': __import__('time'), 'os': __import__('os'), 'posix': __import__('posix'), 'datetime': dt, 'collections': collections, 'uuid': uuid, 'types': types, 'functools': functools,
      'pathlib': pathlib, 'pytz': pytz, 'enum': enum, 'mappingproxy': types.MappingProxyType}

TD = dt.timedelta


def tzs():
    out = [None, dt.timezone.utc, dt.timezone(TD(hours=2)), dt.timezone(TD(hours=-5, minutes=-30), 'X'), dt.timezone(TD(hours=23, minutes=59, seconds=59)),
           dt.timezone(-TD(hours=23, minutes=59, seconds=59), ''), dt.timezone(TD(seconds=1), "it's \"q\""), dt.timezone(TD(microseconds=1)),
           dt.timezone(TD(0), 'Zero'), pytz.utc, pytz.timezone('Europe/Helsinki'), pytz.timezone('America/New_York'), pytz.timezone('Asia/Kolkata'),
           pytz.FixedOffset(90), pytz.FixedOffset(-300), pytz.timezone('GMT'), pytz.timezone('Etc/UTC'), pytz.timezone('Zulu'), pytz.timezone('Etc/GMT+5'),
           pytz.timezone('Etc/GMT-14'), pytz.timezone('UTC'), pytz.timezone('Africa/Abidjan'), pytz.timezone('Asia/Kathmandu'), pytz.FixedOffset(0)]
    hel = pytz.timezone('Europe/Helsinki')
    out.append(hel.localize(dt.datetime(2020, 7, 1)).tzinfo)
    out.append(hel.localize(dt.datetime(2020, 1, 1)).tzinfo)
    out.append(pytz.timezone('America/New_York').localize(dt.datetime(2020, 11, 1, 1, 30), is_dst=False).tzinfo)
    return out


def gen_instances(rng, quick):
    """yields (typename, instance)"""
    zones = tzs()
    dts = [dt.datetime.min, dt.datetime.max, dt.datetime(2020, 1, 1), dt.datetime(2020, 1, 1, 0, 0, 0, 5), dt.datetime(2020, 1, 1, 7),
           dt.datetime(2020, 12, 31, 0, 30), dt.datetime(2020, 2, 29, 0, 0, 59), dt.datetime(1, 1, 1, fold=1), dt.datetime(2020, 5, 5, 1, 2, 3, 4, fold=1),
           dt.datetime(9999, 12, 31)]
    for d in dts:
        for z in (zones if not quick else rng.sample(zones, 6)):
            yield 'datetime', d.replace(tzinfo=z)
    for _ in range(20 if quick else 400):
        d = dt.datetime(rng.randint(1, 9999), rng.randint(1, 12), rng.randint(1, 28), rng.choice([0, rng.randint(0, 23)]), rng.choice([0, rng.randint(0, 59)]),
                        rng.choice([0, rng.randint(0, 59)]), rng.choice([0, rng.randint(0, 999999)]), fold=rng.choice([0, 0, 1]))
        yield 'datetime', d.replace(tzinfo=rng.choice(zones))
    for d in (dt.date.min, dt.date.max, dt.date(2020, 2, 29), dt.date(1970, 1, 1)):
        yield 'date', d
    times = [dt.time(), dt.time.max, dt.time(fold=1), dt.time(0, 0, 0, 1), dt.time(12), dt.time(0, 30), dt.time(0, 0, 7), dt.time(23, 59, 59, 999999, fold=1)]
    for t in times:
        for z in [None, dt.timezone.utc, dt.timezone(TD(hours=2)), dt.timezone(TD(hours=-5), 'EST'), pytz.utc, pytz.FixedOffset(60)]:
            yield 'time', t.replace(tzinfo=z)
    tds = [TD(0), TD.resolution, -TD.resolution, TD.min, TD.max, TD(days=364), TD(days=365), TD(days=366), TD(days=730), TD(days=731), TD(days=-365),
           TD(milliseconds=1), TD(milliseconds=1, microseconds=1), TD(microseconds=999), TD(microseconds=1000), TD(seconds=59), TD(seconds=60), TD(seconds=3600),
           TD(hours=23, minutes=59, seconds=59, microseconds=999999), TD(days=1, seconds=1), -TD(days=1, seconds=1), TD(days=-1, seconds=1), TD(days=3 * 365 + 2, hours=5)]
    for t in tds:
        yield 'timedelta', t
    for _ in range(20 if quick else 300):
        yield 'timedelta', TD(days=rng.choice([0, rng.randint(-3000, 3000)]), seconds=rng.choice([0, rng.randint(0, 86399)]), microseconds=rng.choice([0, rng.randint(0, 999999)]))
    for z in zones:
        if isinstance(z, dt.timezone):
            yield 'timezone', z
        elif z is not None:
            yield 'pytz zone', z
    inner = [1, 'a', [1, 2], {'k': (1,)}, None, 'lorem ipsum dolor sit amet ' * 3, 1.5, b'x']
    for n in (0, 1, 2, 5):
        items = [(rng.choice(['k%d' % i, i, (i, 'k')]), rng.choice(inner)) for i in range(n)]
        yield 'OrderedDict', collections.OrderedDict(items)
        yield 'OrderedDict', collections.OrderedDict(reversed(items))
        for fac in (None, list, int, dict, set, str):
            yield 'defaultdict', collections.defaultdict(fac, items)
        for ml in (None, 0, n, n + 3):
            yield 'deque', collections.deque([v for _, v in items], maxlen=ml)
        yield 'Counter', collections.Counter({k: rng.choice([0, -3, 1, 5, 5]) for k, _ in items})
        yield 'mappingproxy', types.MappingProxyType(dict(items))
        yield 'SimpleNamespace', types.SimpleNamespace(**{'f%d' % i: v for i, (_, v) in enumerate(items)})
    yield 'Counter', collections.Counter('abracadabra')
    yield 'ChainMap', collections.ChainMap()
    yield 'ChainMap', collections.ChainMap({})
    yield 'ChainMap', collections.ChainMap({}, {})
    yield 'ChainMap', collections.ChainMap({'a': 1})
    yield 'ChainMap', collections.ChainMap({'a': 1}, {}, {'b': [1, 2], 'a': 3})
    yield 'ChainMap', collections.ChainMap({}, {'a': 1})
    yield 'SimpleNamespace', types.SimpleNamespace()
    yield 'SimpleNamespace', types.SimpleNamespace(z=1, a=types.SimpleNamespace(q=[1]))
    for u in (uuid.UUID(int=0), uuid.UUID(int=2 ** 128 - 1), uuid.UUID('12345678-1234-5678-1234-567812345678'), uuid.UUID(int=rng.getrandbits(128))):
        yield 'UUID', u
    for cls in (Color, IE, SE, Fl, IFl, TupleValued):
        for name, member in cls.__members__.items():
            yield 'Enum member', member
    for p in (Point0(), Point1(1), Point1([1, 2]), Point3(1, 'a', None), Point3(Point1(1), (1,), {'k': 'v'}), Point3('x' * 40, 'y' * 40, 'z' * 40)):
        yield 'namedtuple', p
    yield 'namedtuple', Renamed(1, 2, 3, 4)
    for cls_ in (Collide1, Collide2, Collide3):
        yield 'namedtuple', cls_(*range(len(cls_._fields)))
        yield 'namedtuple', cls_(*[[i, 'x' * 12] for i in range(len(cls_._fields))])
    for j in range(0, len(COLLIDING), 4):
        yield 'SimpleNamespace', types.SimpleNamespace(**{k_: [1, k_] for k_ in COLLIDING[j:j + 4] if k_ != 'self'})
    yield 'partial', functools.partial(dict, **{k_: 1 for k_ in COLLIDING[:8] if k_ != 'self'})
    yield 'partial', functools.partial(dict, **{k_: 'v' for k_ in COLLIDING[8:] if k_ != 'self'})
    yield 'namedtuple', PointSub(1, [2, 3])
    yield 'namedtuple', PointSub(PointSub(1, 2), Renamed('a', 'b', 'c', 'd'))
    import fractions
    yield 'defaultdict', collections.defaultdict(collections.OrderedDict, {'k': collections.OrderedDict(a=1)})
    yield 'defaultdict', collections.defaultdict(fractions.Fraction, {1: 2})
    yield 'defaultdict', collections.defaultdict(collections.defaultdict, {})
    yield 'Counter', collections.Counter({1: 2, 'a': 2, (1, 2): 2, None: 1, b'b': 1})
    yield 'Counter', collections.Counter({'x' * 40: 3, 'y' * 40: 3})
    yield 'partial', functools.partial(functools.partial(dict, a=1, b=2), b=3, c=4)
    yield 'partial', functools.partial(functools.partial(sorted, reverse=True), key=len)
    yield 'exception', ValueError((1, 2))
    yield 'exception', KeyError(('a', 'b'))
    yield 'exception', OSError((2, 'x'))
    yield 'exception', Exception([ValueError('inner', (1,))], {'k': KeyError(1)})
    for p_ in ('C:foo', 'C:foo/bar', 'a/b.', 'a./b', '.hidden', 'a/./b', 'a//b', 'c:/', '\\\\host\\share', 'trailing/'):
        yield 'pure path', pathlib.PureWindowsPath(p_)
        yield 'pure path', pathlib.PurePosixPath(p_)
    for days in (365, 730, 1095, 3650, 365 * 2739726):
        for extra in (TD(0), TD(microseconds=1), TD(microseconds=999999), TD(seconds=1), TD(milliseconds=1), -TD(microseconds=1)):
            yield 'timedelta', TD(days=days) + extra
            yield 'timedelta', -(TD(days=days) + extra)
    for z in zones:
        yield 'datetime', dt.datetime(2021, 3, 4, 5, 6, 0, 7, tzinfo=z)
        yield 'datetime', dt.datetime(2021, 3, 4, 0, 0, 0, 7, tzinfo=z, fold=1)
        yield 'datetime', dt.datetime(2021, 3, 4, 5, 0, 9, 0, tzinfo=z)
        if z is None or not isinstance(z, pytz.tzinfo.DstTzInfo):
            yield 'time', dt.time(0, 0, 0, 5, tzinfo=z, fold=1)
            yield 'time', dt.time(7, 0, 9, tzinfo=z)
    import os as _os
    import sys as _sys
    import time as _time
    for ss in (_time.gmtime(0), _time.gmtime(86400 * 365 * 30 + 12345), _time.struct_time((2020, 2, 29, 23, 59, 59, 5, 60, 1)), _os.stat_result(tuple(range(10))),
               _os.stat_result(tuple(range(10, 29))), _os.times_result((1.5, 2.5, 0.0, 0.0, 1e6)), _os.terminal_size((80, 24))):
        yield 'struct sequence', ss
    for tv in (type(None), int, dict, functools.partial, collections.OrderedDict, dt.datetime, len, sorted, print, [].append, 'x'.join, {}.get, _os.getcwd, functools.reduce,
               lambda x: x, gen_instances, skey, Color, Point3, ValueError, type, object, NotImplemented, complex(1, 2), range(5), slice(1, None, 2), memoryview(b'ab'), bytearray(b'xy'),
               __import__('decimal').Decimal('1.5'), __import__('fractions').Fraction(1, 3), object(), iter([1]), (x for x in ()), _sys.flags, _sys.version_info, _sys.float_info, _os.environ.__class__,
               dt.timezone, pytz.utc.__class__, Color.RED.__class__, enum.Enum, types.SimpleNamespace, pathlib.PurePath):
        yield 'totality only', tv
    yield 'partial', functools.partial(int)
    yield 'partial', functools.partial(int, '101', base=2)
    yield 'partial', functools.partial(sorted, [3, 1, 2], reverse=True)
    yield 'partial', functools.partial(dict, a=1, b=[1, 2])
    yield 'partial', functools.partial(functools.partial(max, 1), 2)
    excs = [ValueError(), ValueError('x'), ValueError('x', 1), KeyError('k'), KeyError(), Exception(None), RuntimeError('a' * 100), TypeError(['list'], {'d': 1}),
            OSError(), OSError('plain'), OSError(2, 'No such file or directory'), OSError(13, 'Permission denied'), OSError(17, 'File exists'), OSError(4, 'Interrupted'),
            OSError(2, 'No such file', 'fname'), StopIteration(5), SystemExit(1), KeyboardInterrupt(), AssertionError('m'), UnicodeDecodeError('utf-8', b'\xff', 0, 1, 'bad'),
            ZeroDivisionError('division by zero'), IndexError(1, 2, 3, 4, 5), ImportError('msg'), LookupError(ValueError('inner'))]
    for e in excs:
        yield 'exception', e
    paths = ['', '.', '/', 'a', 'a/../b/c', '/usr/local/lib', 'dir with space/file name.txt', "it's/a \"q\"", 'back\\slash/x', '../..', '//double//slash', 'a/' * 40 + 'end',
             '/' + '/'.join('segment%d' % i for i in range(30)), 'é/中']
    for p in paths:
        yield 'pure path', pathlib.PurePosixPath(p)
        yield 'pure path', pathlib.PurePath(p)
    for p in ['C:/a/b', 'C:\\Users\\x y\\file.txt', '//server/share/dir/f', 'c:', 'C:/', 'rel\\ative', 'C:/' + 'long segment/' * 12]:
        yield 'pure path', pathlib.PureWindowsPath(p)
    yield 'pure path', pathlib.PosixPath('/tmp/x')


def helper_function(x):
    return x


# values that the bundled printers show as an identifier followed by an end-of-line comment ("print  # built-in function", "collections.deque  # class"):
# as a field / keyword value they put a comment in the middle of a call, which must then break after it
IDENT_VALUES = [print, len, sorted, max, collections.OrderedDict, collections.deque, dt.datetime, dt.timezone, uuid.UUID, helper_function, functools.partial,
                int, dict, pathlib.PurePosixPath]


def rand_instances(rng, n):
    """seeded random instances of every family (contents from the built-in value generator)"""
    def val(depth=2):
        if rng.random() < 0.12:
            return rng.choice(IDENT_VALUES)
        return V.build(V.rand_tree(rng, depth=depth, budget=[rng.randint(1, 5)]))

    def hval():
        return V.build(V.rand_tree(rng, depth=1, budget=[2], hashable_only=True)) if rng.random() < 0.3 else rng.choice([rng.randint(-5, 5), V.rand_text(rng, 12), (1, 'a'), 2.5, None, b'k'])
    zones = tzs()
    for _ in range(n):
        c = rng.randrange(16)
        if c == 0:
            yield 'OrderedDict', collections.OrderedDict((hval(), val()) for _ in range(rng.randint(0, 5)))
        elif c == 1:
            yield 'defaultdict', collections.defaultdict(rng.choice([None, list, int, dict, set, str, float, tuple, frozenset, bytes]), [(hval(), val()) for _ in range(rng.randint(0, 4))])
        elif c == 2:
            n_ = rng.randint(0, 6)
            yield 'deque', collections.deque([val() for _ in range(n_)], maxlen=rng.choice([None, 0, 1, n_, n_ + 1, 100]))
        elif c == 3:
            yield 'Counter', collections.Counter({hval(): rng.choice([0, 1, 2, -1, 10 ** 6, 5, 5]) for _ in range(rng.randint(0, 6))})
        elif c == 4:
            yield 'ChainMap', collections.ChainMap(*[{hval(): val(1) for _ in range(rng.randint(0, 2))} for _ in range(rng.randint(0, 4))])
        elif c == 5:
            yield 'mappingproxy', types.MappingProxyType({hval(): val() for _ in range(rng.randint(0, 4))})
        elif c == 6:
            yield 'SimpleNamespace', types.SimpleNamespace(**{rng.choice(['a', 'b', 'zz', '_p', 'Cap', 'x1', 'é']) + str(i): val() for i in range(rng.randint(0, 4))})
        elif c == 7:
            yield 'UUID', uuid.UUID(int=rng.getrandbits(128))
        elif c == 8:
            yield 'namedtuple', rng.choice([Point1(val()), Point3(val(), val(1), val(1)), NT(val(), val()), Point0()])
        elif c == 9:
            yield 'partial', functools.partial(rng.choice([int, sorted, dict, max, len, print, isinstance, str]), *[val(1) for _ in range(rng.randint(0, 3))],
                                               **{k: val(1) for k in rng.sample(['key', 'base', 'reverse', 'default', 'sep'], rng.randint(0, 2))})
        elif c == 10:
            cls = rng.choice([ValueError, KeyError, OSError, RuntimeError, Exception, TypeError, LookupError, ArithmeticError, AttributeError, StopIteration, UnicodeError, EOFError, BufferError])
            if cls is OSError and rng.random() < 0.6:
                yield 'exception', OSError(rng.choice([1, 2, 13, 17, 20, 21, 32, 104, 110, 111, 9999]), V.rand_text(rng, 20))
            else:
                yield 'exception', cls(*[val(1) for _ in range(rng.randint(0, 4))])
        elif c == 11:
            segs = [rng.choice(['a', '..', '.', 'dir with space', "q'uote", 'd"q', 'é', 'x' * rng.randint(1, 30), 'b.c', '~', '#h']) for _ in range(rng.randint(0, 9))]
            text = ('/' if rng.random() < 0.5 else '') + '/'.join(segs)
            yield 'pure path', rng.choice([pathlib.PurePosixPath, pathlib.PureWindowsPath, pathlib.PurePath])(text)
        elif c == 12:
            d = dt.datetime(rng.randint(1, 9999), rng.randint(1, 12), rng.randint(1, 28), rng.choice([0, rng.randint(0, 23)]), rng.choice([0, rng.randint(0, 59)]),
                            rng.choice([0, rng.randint(0, 59)]), rng.choice([0, 1, 999999, rng.randint(0, 999999)]), fold=rng.choice([0, 0, 1]))
            yield 'datetime', d.replace(tzinfo=rng.choice(zones + [None, None]))
            if rng.random() < 0.15:
                # the repeated local midnight when DST ends: a naive (or aware) datetime at 00:00:00.000000 with fold=1
                yield 'datetime', dt.datetime(d.year, d.month, d.day, fold=1, tzinfo=rng.choice([None, None] + zones))
        elif c == 13:
            t = dt.time(rng.choice([0, rng.randint(0, 23)]), rng.choice([0, rng.randint(0, 59)]), rng.choice([0, rng.randint(0, 59)]), rng.choice([0, rng.randint(0, 999999)]), fold=rng.choice([0, 0, 1]))
            yield 'time', t.replace(tzinfo=rng.choice([None, dt.timezone.utc, dt.timezone(TD(minutes=rng.randint(-1439, 1439))), pytz.utc, pytz.FixedOffset(rng.randint(-700, 700))]))
        elif c == 14:
            yield 'timedelta', TD(days=rng.choice([0, 1, 364, 365, 366, 729, 730, 731, 1095, 1096, rng.randint(-100000, 100000)]), seconds=rng.choice([0, 59, 60, 3599, 3600, 86399, rng.randint(0, 86399)]),
                                  microseconds=rng.choice([0, 1, 999, 1000, 999999, rng.randint(0, 999999)])) * rng.choice([1, 1, -1])
        else:
            off = TD(seconds=rng.randint(-86399, 86399), microseconds=rng.choice([0, 0, rng.randint(0, 999999)]))
            yield 'timezone', dt.timezone(off) if rng.random() < 0.5 else dt.timezone(off, V.rand_text(rng, 10))


_ORDER_FREE = [False]   # set while judging an output printed with sort_dict_keys=True: plain dicts (whose equality ignores order) may be reordered


def _items(o):
    it = [(skey(k), skey(v)) for k, v in o.items()]
    return tuple(sorted(it, key=repr)) if _ORDER_FREE[0] else tuple(it)


def skey(o):
    """structural key: equality of keys == the equality the property demands"""
    t = type(o)
    if isinstance(o, BaseException):
        extra = (skey(o.errno), skey(o.strerror)) if isinstance(o, OSError) else ()
        return ('exc', t, tuple(skey(a) for a in o.args), extra)
    if t is functools.partial:
        return ('partial', skey(o.func), tuple(skey(a) for a in o.args), tuple(sorted((k, skey(v)) for k, v in o.keywords.items())))
    if t is collections.deque:
        return ('deque', o.maxlen, tuple(skey(x) for x in o))
    if t is collections.defaultdict:
        return ('defaultdict', o.default_factory, _items(o))
    if t is collections.OrderedDict:
        return ('OrderedDict', tuple((skey(k), skey(v)) for k, v in o.items()))
    if t is collections.Counter:
        return ('Counter', tuple(sorted(((skey(k), v) for k, v in o.items()), key=repr)))
    if t is collections.ChainMap:
        return ('ChainMap', tuple(skey(m) for m in o.maps))
    if t is types.MappingProxyType:
        return ('mappingproxy', skey(dict(o)))
    if t is types.SimpleNamespace:
        return ('ns', tuple(sorted((k, skey(v)) for k, v in vars(o).items())))   # namespace equality ignores attribute order
    if t is dt.datetime:
        return ('datetime', o.replace(tzinfo=None), o.fold, tzkey(o.tzinfo, o))
    if t is dt.time:
        return ('time', o.replace(tzinfo=None), o.fold, tzkey(o.tzinfo, None))
    if isinstance(o, dt.tzinfo):
        return tzkey(o, None)
    if t is dict:
        return ('dict', _items(o))
    if t in (list, tuple):
        return (t.__name__, tuple(skey(x) for x in o))
    if isinstance(o, tuple):
        return ('namedtuple', t, tuple(skey(x) for x in o))
    if t in (set, frozenset):
        return (t.__name__, tuple(sorted((skey(x) for x in o), key=repr)))
    if t is float:
        return V.canon(o)
    return (t, o)


def tzkey(z, at):
    if z is None:
        return None
    if isinstance(z, dt.timezone):
        off = z.utcoffset(None)
        return ('timezone', off, None if off == TD(0) else z.tzname(None))
    if isinstance(z, pytz.tzinfo.DstTzInfo):
        if z.zone and pytz.timezone(z.zone) is z:
            return ('pytz', z.zone)
        return ('pytz-dst', z._utcoffset, z._dst, z._tzname)
    if z is pytz.utc:
        return ('pytz-utc',)
    return ('tz', type(z), z.utcoffset(None), z.tzname(None))


CONTEXTS = ['top', 'among', 'dictvalue', 'dictkey', 'callarg']


def place(ctx, v):
    return {'top': lambda: v, 'among': lambda: [0, v, 'x'], 'dictvalue': lambda: {'k': v}, 'dictkey': lambda: {v: 0}, 'callarg': lambda: NT(a=v, b=0)}[ctx]()


def pick(ctx, res):
    return {'top': lambda: res, 'among': lambda: res[1], 'dictvalue': lambda: res['k'], 'dictkey': lambda: next(iter(res)), 'callarg': lambda: res.a}[ctx]()


def is_hashable(v):
    try:
        hash(v)
        return True
    except TypeError:
        return False


def check_one(sh, tname, inst, ctx, cfg):
    case = {'type': tname, 'instance': repr(inst)[:300], 'context': ctx, 'cfg': cfg}
    try:
        text, ws = M.pp(place(ctx, inst), **cfg)
    except M.ContractViolation as e:
        sh.violation(e.key, e.what, dict(case, detail=e.detail))
        return None
    except M.MonitorAbort as e:
        sh.violation('monitor-abort', str(e), case)
        return None
    except Exception as e:
        sh.violation('pformat-raised:' + tname, repr(e), case)
        return None
    if ws:
        fb = M.fallback_warnings(ws)
        if fb:
            import re
            m = re.search(r'The pretty printer for (\S+), (\S+), raised', fb[0][1])
            printer = m.group(2) if m else '?'
            sh.violation('printer-failed:' + printer, 'bundled printer fell back to repr: %s' % fb[0][1][-400:], case)
        else:
            sh.violation('unexpected-warning:' + tname, ws[0][1][:300], case)
        return text
    if tname == 'totality only':
        # classes, functions, iterators, ... : the bundled printers (type / function / built-in function printers, repr fallback)
        # must not fail; the text need not be evaluable
        sh.counters['totality-only values printed without failure'] += 1
        sh.see('types verified', tname)
        return text
    try:
        got = pick(ctx, V.evaluate(text, NS))
    except Exception as e:
        sh.violation('eval-error:' + tname, 'output does not evaluate (%r): %r' % (e, text[:400]), case)
        return text
    if isinstance(inst, pytz.tzinfo.DstTzInfo) and isinstance(got, pytz.tzinfo.DstTzInfo):
        pass    # localized pytz zone instances are reconstructed through the DstTzInfo base class (same offsets and name)
    elif type(got) is not type(inst):
        sh.violation('type-changed:' + tname, 'evaluates to %s: %r' % (type(got).__name__, text[:300]), case)
        return text
    _ORDER_FREE[0] = bool(cfg.get('sort_dict_keys'))
    try:
        same = skey(got) == skey(inst)
    except Exception as e:
        sh.violation('compare-failed:' + tname, repr(e), case)
        return text
    if not same:
        sh.violation('not-equal:' + tname, 'reconstructed %r from %r; key %r vs %r' % (got, text[:300], skey(got), skey(inst)), case)
        return text
    # idempotence: the reconstructed object prints to a text that evaluates to an equal object again
    try:
        text2, ws2 = M.pp(place(ctx, got), **cfg)
        got2 = pick(ctx, V.evaluate(text2, NS))
        if ws2 or skey(got2) != skey(inst):
            sh.violation('reprint-of-reconstructed-object:' + tname, 'printing the reconstructed object gives %r (warnings %r)' % (text2[:300], [w[1][:80] for w in ws2]), case)
            return text
        sh.counters['reconstructed objects re-printed and re-evaluated'] += 1
    except Exception as e:
        sh.violation('reprint-of-reconstructed-object:' + tname, 'printing / evaluating the reconstructed object failed: %r' % (e,), case)
        return text
    sh.counters['instances reconstructed'] += 1
    sh.see('types verified', tname)
    if '\n' in text:
        sh.counters['multi-line outputs'] += 1
    return text


def configs(rng, quick):
    cfgs = [{}, {'width': rng.choice([1, 10, 20, 40]), 'ribbon_width': rng.choice([1, 10, 71]), 'indent': rng.choice([1, 2, 4, 8])}]
    # key sorting is a setting too: it may reorder plain dicts, never an OrderedDict (whose equality is order-sensitive) or any other type
    cfgs.append({'sort_dict_keys': True, 'width': rng.choice([20, 79, 200])})
    if not quick:
        cfgs += [{'width': rng.randint(1, 200), 'ribbon_width': rng.randint(1, 200), 'indent': rng.randint(1, 8)} for _ in range(4)]
        cfgs += [{'width': 200, 'ribbon_width': 200, 'indent': 8}, {'width': 1, 'ribbon_width': 1, 'indent': 1}]
    return cfgs


def run_shard(sh):
    M.install_warning_recorder()
    M.install_string_contracts()
    quick = sh.tier == 'quick'
    idx = 0
    rng0 = V.rng_for('c07gen', sh.seed)
    import itertools
    stream = itertools.chain(gen_instances(rng0, quick), rand_instances(V.rng_for('c07rand', sh.seed), 1500 if quick else 60000))
    for tname, inst in stream:
        for ctx in CONTEXTS:
            if ctx == 'dictkey' and not is_hashable(inst):
                continue
            idx += 1
            if not sh.mine(idx):
                continue
            rng = V.rng_for('c07', sh.seed, idx)
            for cfg in configs(rng, quick):
                check_one(sh, tname, inst, ctx, cfg)
                sh.case((tname, repr(inst), ctx, sorted(cfg.items())))
            if idx % 500 == 0:
                sh.sample({'type': tname, 'instance': repr(inst)[:120], 'context': ctx})


def finalize(m):
    want = {'datetime', 'date', 'time', 'timedelta', 'timezone', 'pytz zone', 'OrderedDict', 'defaultdict', 'deque', 'Counter', 'ChainMap', 'mappingproxy',
            'UUID', 'Enum member', 'SimpleNamespace', 'namedtuple', 'partial', 'exception', 'pure path', 'struct sequence', 'totality only'}
    seen = m.sets.get('types verified', set())
    if want - seen:
        m.inconclusive.append('types with no verified instance: %s' % sorted(want - seen))
    if not m.counters.get('multi-line outputs'):
        m.inconclusive.append('no multi-line output observed')


def replay(wit):
    M.install_warning_recorder()
    M.install_string_contracts()
    from ..runner import Shard
    sh = Shard('replay', 0, 0, 1)
    c = wit['case']
    rng0 = V.rng_for('c07gen', wit.get('seed', 0))
    hit = False
    import itertools
    q = wit.get('tier', 'quick') == 'quick'
    for tname, inst in itertools.chain(gen_instances(rng0, q), rand_instances(V.rng_for('c07rand', wit.get('seed', 0)), 1500 if q else 60000)):
        if tname == c['type'] and repr(inst)[:300] == c['instance']:
            hit = True
            text = check_one(sh, tname, inst, c['context'], c['cfg'])
            print('instance:', repr(inst)[:300], 'context', c['context'], 'cfg', c['cfg'])
            print('output:', text)
            break
    if not hit:
        print('instance not found in the generator for this seed/tier:', c['instance'])
        return False
    for v in sh.violations:
        print('VIOLATED', v['key'], v['what'][:600])
    if not sh.violations:
        print('holds on this case')
    return not sh.violations


LEVEL = 'exploration'
TECHNIQUE = 'runtime monitor on printer-failure warnings plus eval round-trip oracle with per-type structural equality, boundary-value generators per stdlib type'
LEVEL_TEXT = ('Boundary and seeded random instances of all 19 listed standard-library type families (plus struct sequences) are printed in five nesting contexts at several configurations with the warning recorder on; '
              'any internal printer failure is a violation, the output must evaluate to an object of the same type with an equal structural key, and the reconstructed object must print and evaluate again (idempotence). '
              'Classes, functions, iterators and other values without an evaluable form are printed for totality only.')
LEVEL_NOTE = 'Generators are hand-written boundary lists plus seeded random datetimes/timedeltas; composite Flag values, lambda factories and custom tzinfo classes are outside the generator.'
ANCHORS = ['pretty_stdlib.pretty_datetime', 'pretty_stdlib.pretty_timezone', 'pretty_stdlib.pretty_time', 'pretty_stdlib.pretty_date', 'pretty_stdlib.pretty_timedelta', 'pretty_stdlib.pretty_pytz_timezone', 'pretty_stdlib.pretty_pytz_dst_timezone', 'pretty_stdlib.pretty_ordereddict', 'pretty_stdlib.pretty_defaultdict', 'pretty_stdlib.pretty_deque', 'pretty_stdlib.pretty_counter', 'pretty_stdlib.pretty_chainmap', 'pretty_stdlib.pretty_mappingproxy', 'pretty_stdlib.pretty_uuid', 'pretty_stdlib.pretty_enum', 'pretty_stdlib.pretty_partial', 'pretty_stdlib.pretty_baseexception', 'pretty_stdlib.pretty_path', 'prettyprinter.pretty_simplenamespace', 'prettyprinter.pretty_namedtuple']
