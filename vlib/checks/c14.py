"""C14 - a failing printer is contained at the value it was printing (fault enumeration).

Workload: trees of instrumented user objects (Node, own registered printer that accepts trailing_comment) mixed with lists, tuples,
dicts, comments and trailing comments. Every Node of every tree is made to fail in turn (fault keyed by node identity, so it fails every
time it is printed), at two points (before / after its children were printed), with each of 17 exception classes (incl. falsy instances, failing __str__, equal-to-everything); pairs are sampled.
Oracle: the output must equal the output of the same tree with the failing node replaced by a Stub whose registered printer returns
repr(node) - the same Doc as the fallback, hence the byte-identical layout; >= 1 UserWarning naming the injected printer and the exception
and no other warning; the fault-free tree printed before and after must not change; the visited-set trace monitor (C13) stays on.
Invalid return values (None, 5, b'x', ['doc']) must be reported with ValueError.
"""
import prettyprinter
from prettyprinter import pretty_call_alt, register_pretty
from prettyprinter.prettyprinter import build_fncall, pretty_python_value

from .. import monitors as M
from .. import values as V
from . import c13

LEVEL = 'fault_enumeration'
RULE = ('random trees (depth <= 3) of Node objects, lists, tuples, dicts with comments/trailing comments; for every tree, EVERY Node x 17 exception classes x 2 fault points is injected '
        '(all single faults enumerated), pairs of failing nodes sampled, invalid return values at top level and nested; a case is (tree, failing node set, exception, point); '
        'non-trivial = the failing node is not the root (it has healthy surroundings) or carries a comment')
ASSUMPTIONS = ['repr(node) is deterministic', 'a nested invalid return may surface either as ValueError out of pformat or as a fallback warning carrying it (the statement does not say which)']


class UserError(Exception):
    pass


class StrFails(Exception):
    def __str__(self):
        raise RuntimeError('str() of this exception fails')


class FalsyError(Exception):
    """an exception instance that is falsy (a 'collection of errors' raised empty)"""
    def __bool__(self):
        return False


class EmptyErrorList(Exception):
    def __len__(self):
        return 0


class EqAnything(Exception):
    def __eq__(self, other):
        return True

    def __hash__(self):
        return 0


def _unicode_error(msg):
    return UnicodeDecodeError('utf-8', b'\xff', 0, 1, msg)


EXCS = {'ValueError': ValueError, 'TypeError': TypeError, 'KeyError': KeyError, 'AttributeError': AttributeError, 'RuntimeError': RuntimeError,
        'RecursionError': RecursionError, 'UserError': UserError, 'StopIteration': StopIteration, 'UnicodeDecodeError': _unicode_error,
        'OSError': lambda msg: OSError(2, msg), 'AssertionError': AssertionError, 'StrFails': StrFails, 'ImportError': ImportError, 'LookupError': LookupError,
        'FalsyError': FalsyError, 'EmptyErrorList': EmptyErrorList, 'EqAnything': EqAnything}


class Node:
    def __init__(self, name, children):
        self.name, self.children = name, children

    def __repr__(self):
        # deterministic and independent of comment wrapper objects among the children
        return '<Node %s with %d children, custom repr \'q\' "d">' % (self.name, len(self.children))


    def __str__(self):
        return 'str() of node %s - must not be used for the fallback' % self.name


class DNode(Node):
    """printer registered lazily by qualified name"""


class PNode:
    """printer registered through a predicate (no class registration at all)"""

    def __init__(self, name, children):
        self.name, self.children = name, children

    def __repr__(self):
        return '<PNode %s with %d children>' % (self.name, len(self.children))

    def __str__(self):
        return 'str() of pnode %s - must not be used' % self.name


class Stub:
    def __init__(self, node):
        self.node = node

    def __repr__(self):
        return repr(self.node)


class Faults:
    def __init__(self):
        self.plan = {}       # id(node) -> (exception class, point) | ('return', value)
        self.hits = 0
        self.printer_calls = 0

    def hit(self, node, point):
        p = self.plan.get(id(node))
        if p and p[0] != 'return' and p[1] == point:
            self.hits += 1
            # the message is data: characters that mean something to str.format / % must pass through the warning unharmed
            raise p[0]('injected %s fault in %s' % (point, node.name) + ' {braces} {0} {} } { %s %d %(k)s 100%')


FAULTS = Faults()


@register_pretty(Node)
def pretty_node(node, ctx, trailing_comment=None):
    FAULTS.printer_calls += 1
    FAULTS.hit(node, 'before')
    nested = ctx.nested_call()
    if trailing_comment:
        doc = build_fncall(ctx, Node, argdocs=[pretty_python_value(node.name, nested), pretty_python_value(node.children, nested)],
                           trailing_comment=trailing_comment)
    else:
        doc = pretty_call_alt(ctx, Node, args=(node.name, node.children))
    FAULTS.hit(node, 'after')
    p = FAULTS.plan.get(id(node))
    if p and p[0] == 'return':
        FAULTS.hits += 1
        return p[1]
    return doc


@register_pretty(__name__ + '.DNode')
def pretty_dnode(node, ctx, trailing_comment=None):
    return pretty_node(node, ctx, trailing_comment=trailing_comment)


@register_pretty(predicate=lambda v: isinstance(v, Node))
def pretty_any_node_by_predicate(node, ctx):
    """a predicate printer that ALSO accepts Node / DNode instances: never consulted while their class printers are registered - and not a
    substitute for the repr when such a printer fails"""
    return 'PREDICATE-PRINTER-USED<%s>' % node.name


@register_pretty(predicate=lambda v: type(v) is PNode)
def pretty_pnode(node, ctx):
    FAULTS.printer_calls += 1
    FAULTS.hit(node, 'before')
    doc = pretty_call_alt(ctx, PNode, args=(node.name, node.children))
    FAULTS.hit(node, 'after')
    p = FAULTS.plan.get(id(node))
    if p and p[0] == 'return':
        FAULTS.hits += 1
        return p[1]
    return doc


@register_pretty(Stub)
def pretty_stub(stub, ctx, trailing_comment=None):
    return repr(stub.node)


PRINTER_NAME = __name__ + '.pretty_node'


# ------------------------------------------------------------------ trees
def gen_tree(rng, depth, names):
    c = rng.random()
    if depth <= 0 or c < 0.2:
        return rng.choice([['int', rng.randint(0, 99)], ['str', rng.choice(['a', 'lorem ipsum', 'x' * 30])]])
    if c < 0.6:
        name = 'n%d' % len(names)
        names.append(name)
        r = [rng.choice(['node', 'node', 'dnode', 'pnode']), name, [gen_tree(rng, depth - 1, names) for _ in range(rng.randint(0, 3))]]
    elif c < 0.75:
        r = ['list', [gen_tree(rng, depth - 1, names) for _ in range(rng.randint(0, 3))]]
    elif c < 0.85:
        r = ['tuple', [gen_tree(rng, depth - 1, names) for _ in range(rng.randint(1, 3))]]
    else:
        pairs = []
        for i in range(rng.randint(1, 3)):
            if rng.random() < 0.3:
                kname = 'n%d' % len(names)
                names.append(kname)
                key = [rng.choice(['node', 'dnode', 'pnode']), kname, []]
            else:
                key = ['str', 'k%d' % i]
            pairs.append([key, gen_tree(rng, depth - 1, names)])
        r = ['dict', pairs]
    w = rng.random()
    if w < 0.2:
        r = ['comment', r, rng.choice(['note', 'two words', 'a b c d e f g'])]
    elif w < 0.4 and r[0] in ('node', 'dnode', 'pnode', 'list', 'tuple', 'dict'):
        r = ['tcomment', r, rng.choice(['trailing', 'trailing note here'])]
    elif w < 0.45 and r[0] in ('node', 'dnode', 'list'):
        r = ['comment', ['tcomment', r, 'tr'], 'lead']
    return r


def build(r, reg, stub=()):
    """reg: name -> Node object (filled). stub: names replaced by Stub(node)."""
    k = r[0]
    if k in ('node', 'dnode', 'pnode'):
        cls = {'node': Node, 'dnode': DNode, 'pnode': PNode}[k]
        node = cls(r[1], [build(c, reg, stub) for c in r[2]])
        reg[r[1]] = node
        return Stub(node) if r[1] in stub else node
    if k == 'list':
        return [build(c, reg, stub) for c in r[1]]
    if k == 'tuple':
        return tuple(build(c, reg, stub) for c in r[1])
    if k == 'dict':
        return {build(a, reg, stub): build(b, reg, stub) for a, b in r[1]}
    if k == 'comment':
        return prettyprinter.comment(build(r[1], reg, stub), r[2])
    if k == 'tcomment':
        return prettyprinter.trailing_comment(build(r[1], reg, stub), r[2])
    return V.build(r)


def node_has_tcomment(r, name, under=False):
    k = r[0]
    if k == 'tcomment':
        return node_has_tcomment(r[1], name, True)
    if k == 'comment':
        return node_has_tcomment(r[1], name, under)
    if k in ('node', 'dnode', 'pnode'):
        if r[1] == name:
            return under
        return any(node_has_tcomment(c, name) for c in r[2])
    if k in ('list', 'tuple'):
        return any(node_has_tcomment(c, name) for c in r[1])
    if k == 'dict':
        return any(node_has_tcomment(a, name) or node_has_tcomment(b, name) for a, b in r[1])
    return False


def recipe_kinds(r, names, out=None):
    """kinds of the named nodes"""
    if out is None:
        out = set()
    k = r[0]
    if k in ('comment', 'tcomment'):
        recipe_kinds(r[1], names, out)
    elif k in ('node', 'dnode', 'pnode'):
        if r[1] in names:
            out.add(k)
        for c in r[2]:
            recipe_kinds(c, names, out)
    elif k in ('list', 'tuple'):
        for c in r[1]:
            recipe_kinds(c, names, out)
    elif k == 'dict':
        for a, b in r[1]:
            recipe_kinds(a, names, out)
            recipe_kinds(b, names, out)
    return out


def root_name(r):
    while r[0] in ('comment', 'tcomment'):
        r = r[1]
    return r[1] if r[0] in ('node', 'dnode', 'pnode') else None


def significant(ws, recipe=None):
    """the package warns that a printer WITHOUT a trailing_comment parameter (PNode's) will not show the comment: expected, not judged - but only
    where such a printer really sits under a trailing comment; for printers that accept the parameter that warning would name a wrong cause"""
    if recipe is not None and not pnode_under_tcomment(recipe):
        return list(ws)
    return [w for w in ws if 'does not support rendering trailing comments' not in w[1]]


def pnode_under_tcomment(r, under=False):
    k = r[0]
    if k == 'tcomment':
        return pnode_under_tcomment(r[1], True)
    if k == 'comment':
        return pnode_under_tcomment(r[1], under)
    if k in ('node', 'dnode', 'pnode'):
        return (k == 'pnode' and under) or any(pnode_under_tcomment(c) for c in r[2])
    if k in ('list', 'tuple'):
        return any(pnode_under_tcomment(c) for c in r[1])
    if k == 'dict':
        return any(pnode_under_tcomment(a) or pnode_under_tcomment(b) for a, b in r[1])
    return False


def inject(sh, recipe, names, failing, excname, point, cfg, baseline):
    case = {'tree': recipe, 'failing': failing, 'exception': excname, 'point': point, 'cfg': cfg}
    tc = any(node_has_tcomment(recipe, n) for n in failing)
    suffix = '-under-trailing-comment' if tc and excname != 'TypeError' else ''
    if tc and any(c in recipe_kinds(recipe, failing) for c in ('pnode',)):
        suffix = '-printer-without-trailing-comment-parameter'
    reg = {}
    tree = build(recipe, reg)
    reg2 = {}
    expected_tree = build(recipe, reg2, stub=set(failing))
    FAULTS.plan = {}
    expected, ews = M.pp(expected_tree, **cfg)
    FAULTS.plan = {id(reg[n]): (EXCS[excname], point) for n in failing}
    FAULTS.hits = 0
    c13.TR.reset()
    c13.TR.budget = 10 ** 7
    try:
        text, ws = M.pp(tree, **cfg)
        ws = significant(ws, recipe)
    except M.MonitorAbort as e:
        sh.violation('monitor-abort', str(e), case)
        return
    except Exception as e:
        FAULTS.plan = {}
        sh.violation('exception-escaped' + suffix, 'pformat raised %r instead of containing the fault' % (e,), case)
        return
    finally:
        hits = FAULTS.hits
        FAULTS.plan = {}
    if hits == 0:
        sh.counters['injections never reached (node not printed)'] += 1
        return
    sh.counters['injections that fired'] += 1
    if text != expected:
        sh.violation('fault-not-contained' + suffix, 'output differs from the tree with only the failing node as repr:\n got %r\nwant %r' % (text[:500], expected[:500]), case)
        return
    fb = M.fallback_warnings(ws)
    if not fb:
        sh.violation('no-warning' + suffix, 'no fallback warning was issued (warnings: %r)' % (ws[:2],), case)
        return
    if len(fb) != len(ws):
        other = [w for w in ws if w not in fb]
        sh.violation('other-warning' + suffix, 'unexpected extra warning %r' % (other[0][1][:200],), case)
        return
    kinds = {type(reg[n]).__name__ for n in failing}
    names_ok = {'Node': PRINTER_NAME, 'DNode': __name__ + '.pretty_dnode', 'PNode': 'pretty_pnode'}
    for w in fb:
        excword = 'StrFails' if excname == 'StrFails' else (type(EXCS[excname]('x')).__name__)
        if w[0] != 'UserWarning' or not any(names_ok[k_] in w[1] for k_ in kinds) or excword not in w[1]:
            sh.violation('warning-text' + suffix, 'warning does not name the printer %s and %s: %r' % (sorted(names_ok[k_] for k_ in kinds), excword, w[1][:300]), case)
            return
    ok, msg, st = c13.TR.check()
    if not ok:
        sh.violation('visited-trace-after-fault', msg, case)
        return
    after, aws = M.pp(build(recipe, {}), **cfg)
    aws = significant(aws)
    if after != baseline or aws:
        sh.violation('later-call-affected', 'fault-free print after the failure differs from the one before: %r vs %r' % (after[:300], baseline[:300]), case)
        return
    sh.counters['faults contained and verified'] += 1
    sh.counters['fallback warnings verified'] += len(fb)
    sh.see('exception classes contained', excname)
    for k_ in kinds:
        sh.see('failing printer registered as', {'Node': 'class', 'DNode': 'deferred name', 'PNode': 'predicate'}[k_])
    sh.see('fault points', point)
    if tc:
        sh.counters['faults under a trailing comment verified'] += 1
    if len(fb) > 1 and len(failing) == 1:
        sh.counters['nodes rendered twice (fault fired twice)'] += 1


def invalid_returns(sh, recipe, names, cfg, baseline=None):
    if baseline is None:
        baseline = M.pp(build(recipe, {}), **cfg)[0]
    for bad in (None, 5, b'x', ['doc']):
        for name in names[:3]:
            reg = {}
            tree = build(recipe, reg)
            FAULTS.plan = {id(reg[name]): ('return', bad)}
            FAULTS.hits = 0
            case = {'tree': recipe, 'failing': [name], 'invalid_return': repr(bad), 'cfg': cfg}
            top = root_name(recipe) == name
            try:
                text, ws = M.pp(tree, **cfg)
                raised = None
            except ValueError as e:
                raised = e
            except Exception as e:
                FAULTS.plan = {}
                sh.violation('invalid-return-wrong-exception', 'printer returned %r: %r raised instead of ValueError' % (bad, e), case)
                continue
            finally:
                hits = FAULTS.hits
                FAULTS.plan = {}
            if not hits:
                continue
            # an earlier failure must not affect later calls: the same tree, fault-free, prints as before
            after, aws = M.pp(build(recipe, {}), **cfg)
            again, aws2 = M.pp(tree, **cfg)
            aws, aws2 = significant(aws), significant(aws2)
            if after != baseline or again != baseline or aws or aws2:
                sh.violation('later-call-affected-after-invalid-return', 'fault-free print after an invalid return differs: %r vs %r' % (again[:300], baseline[:300]), case)
                continue
            if raised is not None:
                if 'must return' not in str(raised):
                    sh.violation('invalid-return-message', 'ValueError without the explanatory text: %r' % (raised,), case)
                else:
                    sh.counters['invalid returns reported with ValueError'] += 1
            elif top:
                sh.violation('invalid-return-not-reported', 'top-level printer returned %r and pformat returned %r' % (bad, text[:200]), case)
            else:
                if any('ValueError' in w[1] and 'must return' in w[1] for w in ws):
                    sh.counters['nested invalid returns reported through a fallback warning'] += 1
                else:
                    sh.violation('invalid-return-not-reported', 'nested printer returned %r: neither ValueError nor a warning carrying it; output %r' % (bad, text[:200]), case)
            sh.case(('ret', repr(recipe), name, repr(bad)))


# ------------------------------------------------------------------ user printers registered for the built-in scalar types themselves
SCALARS = {
    'float': (float, [1.5, -0.0, 2.25, float('inf')]),
    'int': (int, [7, -3, 10 ** 20, 0]),
    'str': (str, ['a', '', 'two words', "q'uote"]),
    'bytes': (bytes, [b'x', b'', b'two words']),
    'bool': (bool, [True, False]),
    'none': (type(None), [None]),
    'list': (list, [[1, 2], [3], []]),
    'tuple': (tuple, [(1, 2), (3,), ()]),
    'dict': (dict, [{'x': 1}, {}, {'y': 2}]),
    'frozenset': (frozenset, [frozenset([1]), frozenset()]),
}


def scalar_printer_child(arg):
    """runs in a forked child: a user replaces the printer of a built-in scalar type (e.g. floats with two decimals) and that printer fails for some
    values. Returns a list of (key, message, case)."""
    kind, excname, cfg, invalid = arg
    M.install_warning_recorder()
    T, pool = SCALARS[kind]
    state = {'mode': 'ok', 'calls': 0}
    failing = pool[0]

    def is_failing(v):
        return type(v) is type(failing) and repr(v) == repr(failing)

    def user_scalar_printer(value, ctx):
        state['calls'] += 1
        if is_failing(value):
            state['fail_hits'] = state.get('fail_hits', 0) + 1
            if state['mode'] == 'raise':
                raise EXCS[excname]('injected {braces} {0} {} } { %s %(k)s')
            if state['mode'] == 'invalid':
                return invalid
            return repr(value)
        return 'U(%s)' % repr(value).replace('\n', ' ')
    register_pretty(T)(user_scalar_printer)
    out = []
    others = pool[1:] or [failing]
    hashable_values = [failing, others[0]]
    values = {
        'top level': failing,
        'in a list': [others[0], failing, others[-1]],
        'dict value': {'a': others[0], 'b': failing},
        'dict key': ({failing: 'v', 'other': 1} if kind != 'none' else {None: 'v'}) if kind not in ('list', 'dict') else None,
        'nested': [(others[0], [failing]), {'k': (failing,)}],
        'set element': ({failing} if kind not in ('none',) else frozenset([None])) if kind not in ('list', 'dict') else None,
        'twice': [failing, failing],
    }
    for where, value in values.items():
        if value is None and where != 'top level':
            continue
        case = {'scalar printer for': kind, 'where': where, 'exception': excname, 'cfg': cfg, 'invalid': repr(invalid)}
        state['mode'] = 'ok'
        expected, ews = M.pp(value, **cfg)
        if ews:
            out.append(('baseline-warning', 'warning without any fault: %r' % (ews[0][1][:200],), case))
            continue
        state['mode'] = 'raise'
        state['fail_hits'] = 0
        try:
            text, ws = M.pp(value, **cfg)
        except Exception as e:
            out.append(('exception-escaped-from-printer-of-builtin-scalar', 'pformat raised %r (%s, printer registered for %s)' % (e, where, kind), case))
            continue
        if not state['fail_hits']:
            # e.g. str dict keys: pretty_dict prints them itself, the registered printer is not consulted - no fault fired, nothing to judge
            out.append(('not-reached', where, None))
            continue
        if text != expected:
            out.append(('fault-not-contained-printer-of-builtin-scalar', '%s: output %r, expected (only the failing value as repr) %r' % (where, text[:300], expected[:300]), case))
            continue
        fb = M.fallback_warnings(ws)
        if not fb or len(fb) != len(ws) or any('user_scalar_printer' not in w[1] for w in fb):
            out.append(('warning-text-printer-of-builtin-scalar', '%s: expected fallback warnings naming user_scalar_printer only, got %r' % (where, [w[1][:120] for w in ws][:3]), case))
            continue
        state['mode'] = 'ok'
        after, aws = M.pp(value, **cfg)
        if after != expected or aws:
            out.append(('later-call-affected', '%s: fault-free print after the failure differs' % where, case))
            continue
        out.append(('ok', where, None))
        # a printer returning neither str nor Doc is reported with ValueError (top level) or through a fallback warning carrying it (nested)
        state['mode'] = 'invalid'
        try:
            text, ws = M.pp(value, **cfg)
            raised = None
        except ValueError as e:
            raised = e
        except Exception as e:
            out.append(('invalid-return-wrong-exception', '%s: printer for %s returned %r: %r raised instead of ValueError' % (where, kind, invalid, e), case))
            continue
        if raised is not None:
            out.append(('ok-invalid', where, None) if 'must return' in str(raised) else ('invalid-return-message', repr(raised), case))
        elif where == 'top level':
            out.append(('invalid-return-not-reported', 'top-level printer for %s returned %r and pformat returned %r' % (kind, invalid, text[:100]), case))
        elif any('ValueError' in w[1] and 'must return' in w[1] for w in ws):
            out.append(('ok-invalid', where, None))
        else:
            out.append(('invalid-return-not-reported', '%s: nested printer for %s returned %r: neither ValueError nor a warning carrying it' % (where, kind, invalid), case))
    return out


def scalar_printers(sh, quick):
    from ..runner import fork_call
    j = 0
    for kind in SCALARS:
        for excname in (list(EXCS)[:4] if quick else list(EXCS)):
            j += 1
            if not sh.mine(j):
                continue
            rng = V.rng_for('c14s', sh.seed, j)
            cfg = rng.choice([{}, {'width': 20}, {'width': 6, 'indent': 2}, {'width': 120, 'ribbon_width': 100}])
            invalid = rng.choice([None, 5, ['doc']])
            status, res = fork_call(scalar_printer_child, (kind, excname, cfg, invalid), timeout=300)
            if status != 'ok':
                sh.inconclusive.append('scalar printer child %s: %s' % (status, str(res)[:200]))
                continue
            for key, msg, case in res:
                if key == 'ok':
                    sh.counters['faults of user printers for built-in scalar types contained'] += 1
                    sh.see('built-in scalar types with a failing user printer', kind)
                elif key == 'ok-invalid':
                    sh.counters['invalid returns of user printers for built-in scalar types reported'] += 1
                elif key == 'not-reached':
                    sh.counters['scalar printer faults never reached (the position does not consult the registered printer)'] += 1
                else:
                    sh.violation(key, msg, case)
            sh.case(('scalar', kind, excname, repr(cfg)), True)


def run_tree(sh, i, quick):
    rng = V.rng_for('c14', sh.seed, i)
    names = []
    recipe = ['node', 'n0', []]
    for _ in range(20):
        names = []
        recipe = gen_tree(rng, 3, names)
        if len(names) >= 2:
            break
    if not names:
        return
    cfg = rng.choice([{}, {'width': 30}, {'width': 10, 'indent': 2}, {'width': 120, 'ribbon_width': 100}])
    FAULTS.plan = {}
    baseline, bws = M.pp(build(recipe, {}), **cfg)
    bws = significant(bws)
    if bws:
        sh.violation('baseline-warning', bws[0][1][:300], {'tree': recipe, 'cfg': cfg})
        return
    for name in names:
        for excname in EXCS:
            for point in ('before', 'after'):
                inject(sh, recipe, names, [name], excname, point, cfg, baseline)
                sh.case((repr(recipe), name, excname, point), nontrivial=(root_name(recipe) != name or recipe[0] not in ('node', 'dnode', 'pnode')))
    for _ in range(4 if quick else 12):
        if len(names) >= 2:
            pair = rng.sample(names, 2)
            inject(sh, recipe, names, pair, rng.choice(list(EXCS)), rng.choice(['before', 'after']), cfg, baseline)
            sh.case((repr(recipe), tuple(pair), 'pair'))
            sh.counters['pair injections'] += 1
    invalid_returns(sh, recipe, names, cfg, baseline)
    sh.counters['trees'] += 1
    if i % 25 == 0:
        sh.sample({'tree': recipe, 'nodes': names, 'cfg': cfg})


def run_shard(sh):
    M.install_warning_recorder()
    c13.install_tracer()
    quick = sh.tier == 'quick'
    for i in range(80 if quick else 2500):
        if sh.mine(i):
            run_tree(sh, i, quick)
    sh.counters['printer invocations'] += FAULTS.printer_calls
    scalar_printers(sh, quick)


def finalize(m):
    for name in ('faults contained and verified', 'fallback warnings verified', 'faults under a trailing comment verified', 'nodes rendered twice (fault fired twice)',
                 'invalid returns reported with ValueError', 'pair injections', 'faults of user printers for built-in scalar types contained',
                 'invalid returns of user printers for built-in scalar types reported'):
        if not m.counters.get(name):
            m.inconclusive.append('monitor never reached: ' + name)
    if len(m.sets.get('failing printer registered as', ())) < 3:
        m.inconclusive.append('not every registration kind of failing printer was exercised')
    if len(m.sets.get('exception classes contained', ())) < len(EXCS):
        m.inconclusive.append('not every exception class was seen contained')


def replay(wit):
    M.install_warning_recorder()
    c13.install_tracer()
    from ..runner import Shard
    sh = Shard('replay', 0, 0, 1)
    c = wit['case']
    names = []
    if 'scalar printer for' in c:
        from ..runner import fork_call
        import ast as _ast
        status, res = fork_call(scalar_printer_child, (c['scalar printer for'], c['exception'], c['cfg'], _ast.literal_eval(c['invalid'])), timeout=300)
        bad = [r for r in res if r[2] is not None] if status == 'ok' else [(status, str(res), None)]
        for r in bad:
            print('VIOLATED', r[0], r[1][:500])
        if not bad:
            print('holds on this case')
        return not bad
    if 'invalid_return' in c:
        invalid_returns(sh, c['tree'], c['failing'], c['cfg'])
    else:
        baseline, _ = M.pp(build(c['tree'], {}), **c['cfg'])
        print('fault-free output:\n' + baseline)
        inject(sh, c['tree'], names, c['failing'], c['exception'], c['point'], c['cfg'], baseline)
        print('failing nodes %s, %s at point %r' % (c['failing'], c['exception'], c['point']))
    for v in sh.violations:
        print('VIOLATED', v['key'], v['what'][:900])
    if not sh.violations:
        print('holds on this case')
    return not sh.violations


TECHNIQUE = 'fault injection at every printer invocation (by node identity) with a differential oracle (stub-printer tree) + warning recorder + visited-set trace checker'
LEVEL_TEXT = ('For every generated tree, every instrumented node is made to fail in turn with each of 17 exception classes (incl. falsy instances, failing __str__, equal-to-everything) at two points of its printer (all single faults enumerated; pairs and invalid '
              'return values sampled); the output must be byte-identical to the same tree with only that node replaced by its repr, with the right warning, and later fault-free prints must be unaffected.')
LEVEL_NOTE = 'Trees are random (not all shapes); faults are injected in a user printer registered by the harness, the containment code under test is the real _run_pretty.'
ANCHORS = ['prettyprinter._run_pretty', 'prettyprinter._warn_about_bad_printer', 'prettyprinter.PrettyContext.end_visit']
