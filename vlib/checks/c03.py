"""C03 - width, ribbon and indent change only the layout, never the content.

Oracle: for one live value printed under a set of configurations, ast.dump(ast.parse("(" + out + "\n)")) must be
identical for all of them (adjacent literals fold, redundant parentheses vanish, comments are ignored - exactly the
differences the statement allows); every non-empty output line starts with a multiple of `indent` spaces.
"""
import ast
import io
import tokenize

import prettyprinter

from .. import monitors as M
from .. import values as V
from . import c07, c08, c09, c17

RULE = ('values from five generators - built-in trees (C01), commented trees (C09), stdlib instances (C07), subclass instances (C08), pretty_call user types (C17) - each printed '
        'under a configuration set (always (1,1,1), (200,200,8), the defaults, L-1/L/L+1 of the one-line form, plus seeded random triples from the full ranges) and compared '
        'all-against-first; a case is (value, configuration set); non-trivial = at least two different texts were produced for the value')
ASSUMPTIONS = ['ast.parse folds adjacent string literals and drops comments and redundant parentheses', 'the same live object is printed for every configuration, so set iteration order is constant']


def config_set(rng, value, n):
    cfgs = [{'width': 1, 'ribbon_width': 1, 'indent': 1}, {'width': 200, 'ribbon_width': 200, 'indent': 8}, {}]
    try:
        L = len(prettyprinter.pformat(value, width=10 ** 6, ribbon_width=10 ** 6))
    except Exception:
        L = 40
    M.take_warnings()
    for w in (L - 1, L, L + 1):
        if 1 <= w <= 10000:
            cfgs.append({'width': w, 'ribbon_width': w, 'indent': rng.randint(1, 8)})
    while len(cfgs) < n:
        cfgs.append({'width': rng.randint(1, 200), 'ribbon_width': rng.randint(1, 200), 'indent': rng.randint(1, 8)})
    return cfgs


def string_token_count(text):
    try:
        return sum(1 for t in tokenize.generate_tokens(io.StringIO('(' + text + '\n)').readline) if t.type == tokenize.STRING)
    except Exception:
        return -1


def check_value(sh, value, desc, cfgs):
    first = None
    texts = set()
    ntok = set()
    eol = own = False
    for cfg in cfgs:
        case = {'value': desc, 'cfg': cfg, 'first_cfg': cfgs[0]}
        try:
            text, ws = M.pp(value, **cfg)
        except M.ContractViolation as e:
            sh.violation(e.key, e.what, dict(case, detail=e.detail))
            return None
        except M.MonitorAbort as e:
            sh.violation('monitor-abort', str(e), case)
            return None
        except Exception as e:
            sh.violation('pformat-raised', repr(e), case)
            return None
        if M.fallback_warnings(ws):
            sh.violation('fallback-warning', ws[0][1][-300:], case)
            return None
        try:
            dump = V.ast_dump(text)
        except SyntaxError as e:
            sh.violation('not-parseable', '%r: %r' % (e, text[:300]), case)
            return None
        if first is None:
            first = (dump, text)
        elif dump != first[0]:
            sh.violation('content-depends-on-layout', 'syntax tree under %r differs from the one under %r: %r vs %r' % (cfg, cfgs[0], text[:300], first[1][:300]), case)
            return None
        ind = cfg.get('indent', 4)
        for ln in text.split('\n'):
            if ln.strip() and (len(ln) - len(ln.lstrip(' '))) % ind:
                sh.violation('indent-not-a-multiple', 'line %r is not indented by a multiple of %d: %r' % (ln[:60], ind, text[:300]), case)
                return None
        texts.add(text)
        ntok.add(string_token_count(text))
        for ln in text.split('\n'):
            if ln.lstrip().startswith('#'):
                own = True
            elif '#' in ln and ln.rstrip() and not ln.lstrip().startswith(('\'', '"', 'b\'', 'b"')):
                eol = True
    if len(texts) > 1:
        sh.counters['values printed in more than one layout'] += 1
    if len(ntok) > 1:
        sh.counters['values whose string literals split differently'] += 1
    if eol and own:
        sh.counters['values with comments both at end of line and on their own line'] += 1
    if any('\n' not in t for t in texts) and any('\n' in t for t in texts):
        sh.counters['values seen both on one line and broken'] += 1
    sh.counters['prints compared'] += len(cfgs)
    return len(texts)


def build_builtin(seed, i):
    rng = V.rng_for('c03b', seed, i)
    recipe = V.rand_tree(rng)
    if i % 4 == 2:
        # the same container object at two places of the value
        aliased = V.alias_recipe(recipe, rng)
        if aliased is not None:
            return V.build(aliased, V.BuildEnv(share={}))
    return V.build(recipe)


def sources(sh, quick):
    """yields (kind, desc, value)"""
    seed = sh.seed
    n = 1500 if quick else 12000
    for i in range(n):
        yield 'builtin', lambda i=i: ({'gen': 'builtin', 'i': i, 'seed': seed}, build_builtin(seed, i))
    for i in range(n):
        def commented(i=i):
            rng = V.rng_for('c03c', seed, i)
            shape = c09.rand_shape(rng, rng.randint(2, 7))
            slots = []
            for j, kind, nch in c09.nodes_of(shape):
                if rng.random() < 0.4:
                    slots.append((j, 'c'))
                if kind in c09.TRAILABLE and rng.random() < 0.3:
                    slots.append((j, 't'))
            recipe = c09.to_recipe(shape, [0, 0], c09.make_marks(slots or [(0, 'c')], rng))
            return {'gen': 'commented', 'i': i, 'seed': seed, 'recipe': recipe}, V.build(recipe, c09.ENVB)
        yield 'commented', commented
    insts = list(c07.gen_instances(V.rng_for('c03s', seed), quick))
    for i, (tname, inst) in enumerate(insts):
        if tname == 'totality only':
            continue        # values without an evaluable form (addresses in the text): C07 prints them for totality, nothing to parse here
        yield 'stdlib', lambda i=i, tname=tname, inst=inst: ({'gen': 'stdlib', 'i': i, 'seed': seed, 'type': tname, 'repr': repr(inst)[:200]}, [inst, {'k': inst}])
    k = 0
    for base in c08.BASES:
        for cls in c08.FAMILY[base]:
            for bv in c08.base_values(base, V.rng_for('c03u', seed, cls.__qualname__), True):
                k += 1
                yield 'subclass', lambda cls=cls, bv=bv, k=k: ({'gen': 'subclass', 'class': cls.__qualname__, 'value': repr(bv)[:200]}, {'key': cls(bv), 'l': [cls(bv), 1]} if True else None)
    for i in range(n):
        def call(i=i):
            rng = V.rng_for('c03p', seed, i)
            h, _ = c17.gen_holder(rng)
            return {'gen': 'pretty_call', 'i': i, 'seed': seed, 'call': c17.holder_desc(h)}, h
        yield 'pretty_call', call


def run_shard(sh):
    M.install_warning_recorder()
    M.install_string_contracts()
    quick = sh.tier == 'quick'
    idx = 0
    for kind, thunk in sources(sh, quick):
        idx += 1
        if not sh.mine(idx):
            continue
        desc, value = thunk()
        rng = V.rng_for('c03cfg', sh.seed, idx)
        cfgs = config_set(rng, value, 8 if quick else 30)
        if idx % 3 == 0:
            # the other settings are held fixed while the layout settings vary: the text under depth / max_seq_len / sort_dict_keys must be
            # layout-independent as well
            fixed = rng.choice([{'depth': 1}, {'depth': 2}, {'depth': 3}, {'max_seq_len': 1}, {'max_seq_len': 3}, {'sort_dict_keys': True}, {'depth': 2, 'max_seq_len': 2}])
            cfgs = [dict(c, **fixed) for c in cfgs]
            desc = dict(desc, fixed=fixed)
            sh.counters['values printed under a fixed depth / max_seq_len / sort_dict_keys'] += 1
        n = check_value(sh, value, desc, cfgs)
        sh.case((kind, repr(desc)), nontrivial=bool(n and n > 1))
        sh.counters['values from generator ' + kind] += 1
        if idx % 1200 == 0:
            sh.sample({'value': desc, 'configs': cfgs[:4]})


def finalize(m):
    for name in ('values printed in more than one layout', 'values whose string literals split differently', 'values with comments both at end of line and on their own line',
                 'values seen both on one line and broken'):
        if not m.counters.get(name):
            m.inconclusive.append('monitor never reached: ' + name)
    for g in ('builtin', 'commented', 'stdlib', 'subclass', 'pretty_call'):
        if not m.counters.get('values from generator ' + g):
            m.inconclusive.append('generator produced nothing: ' + g)


def rebuild(desc, tier='quick'):
    g = desc['gen']
    if g == 'builtin':
        return build_builtin(desc['seed'], desc['i'])
    if g == 'commented':
        return V.build(desc['recipe'], c09.ENVB)
    if g == 'stdlib':
        insts = list(c07.gen_instances(V.rng_for('c03s', desc['seed']), tier == 'quick'))
        inst = insts[desc['i']][1]
        return [inst, {'k': inst}]
    if g == 'subclass':
        cls = c08.CLASSES[desc['class']]
        for base in c08.BASES:
            if issubclass(cls, base):
                for bv in c08.base_values(base, V.rng_for('c03u', 0, cls.__qualname__), True):
                    if repr(bv)[:200] == desc['value']:
                        return {'key': cls(bv), 'l': [cls(bv), 1]}
    if g == 'pretty_call':
        h, _ = c17.gen_holder(V.rng_for('c03p', desc['seed'], desc['i']))
        return h
    raise ValueError(desc)


def replay(wit):
    M.install_warning_recorder()
    from ..runner import Shard
    sh = Shard('replay', 0, 0, 1)
    c = wit['case']
    value = rebuild(c['value'], wit.get('tier', 'quick'))
    for cfg in (c['first_cfg'], c['cfg']):
        print('--- config', cfg)
        print(prettyprinter.pformat(value, **cfg))
    check_value(sh, value, c['value'], [c['first_cfg'], c['cfg']])
    for v in sh.violations:
        print('VIOLATED', v['key'], v['what'][:600])
    if not sh.violations:
        print('holds on this case')
    return not sh.violations


LEVEL = 'exploration'
TECHNIQUE = 'runtime differential oracle: AST equality of the same live value printed under many configurations + indentation-multiple check, five value generators'
LEVEL_TEXT = ('Thousands of values from five generators (built-ins, commented, stdlib, subclasses, pretty_call user types) are each printed under 8 (thorough 40) configurations including the extremes '
              'and the boundary widths of their one-line form; all outputs of one value must parse to the same syntax tree and every line must be indented by a multiple of indent.')
LEVEL_NOTE = 'Configurations are sampled from width, ribbon in [1,200] and indent in [1,8]; compares all-against-first, which is equivalent to all pairs for an equality relation.'
ANCHORS = ['prettyprinter.bracket', 'prettyprinter.sequence_of_docs', 'prettyprinter.build_fncall', 'prettyprinter.pretty_dict', 'prettyprinter.commentdoc', 'layout.smart_fitting_predicate']
