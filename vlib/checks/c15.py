"""C15 - printer dispatch follows the class hierarchy for every registration history.

Every history runs on a fresh class lattice (A; B(A); C(A); D(B,C); E(B); F; G(E,F), created under a unique pseudo module so that
qualified-name registrations resolve without imports). Operations: register by class / by qualified name / by predicate, print an
instance, is_registered with each of the 8 flag combinations. Each test printer returns a unique tag, so the observation is WHICH printer
ran. The oracle is a declarative model of the statement (nearest class in the MRO holding a registration, latest of a kind wins, else the
first-registered accepting predicate, else repr) and - state hook - after every operation the projection of the three real registries onto
the lattice is compared with the model (promotion moves an entry and nothing else changes; register_deferred=False changes nothing).
Histories run in forked children of a pristine process so the append-only global registries stay small and never leak between batches.
"""
import itertools

import prettyprinter
from prettyprinter import is_registered, register_pretty

from .. import monitors as M
from .. import values as V
from ..runner import fork_call

ppm = M.ppm
LEVEL = 'exploration'
RULE = ('all operation histories of length <= 3 (thorough 4) over the alphabet {register class/name/predicate, print, is_registered x 8 flag combinations} x classes {A,B,D,E,G} of a 7-class lattice, '
        'plus random histories up to length 12 over all 7 classes; a case is one history; non-trivial = the history contains a registration followed by a print or query')
ASSUMPTIONS = ['when a class holds both a direct and a pending deferred registration either printer is accepted (the statement does not order them)',
               'is_registered is unconstrained for classes reachable only through a predicate', 'object is never registered']

NAMES = ['A', 'B', 'C', 'D', 'E', 'F', 'G']
FLAGS = [(cs, cd, rd) for cs in (False, True) for cd in (False, True) for rd in (False, True)]
_uid = [0]


def make_lattice(variant=0):
    _uid[0] += 1
    mod = 'verif_lattice_%d' % _uid[0]
    # variant: the root classes A and F claim to live in 'builtins' / '__main__' (unique qualified names keep the deferred keys apart)
    special = {1: 'builtins', 2: '__main__'}.get(variant % 3)

    def mk(name, bases):
        # E and G get nested qualified names (qualname != name), as classes defined inside classes have
        qual = {'E': 'Outer.E', 'G': 'Outer.Inner.G'}.get(name, name)
        if special and name in ('A', 'F'):
            return type(name, bases, {'__module__': special, '__qualname__': '%s_%d' % (qual, _uid[0])})
        return type(name, bases, {'__module__': mod, '__qualname__': qual})
    A = mk('A', (object,))
    B = mk('B', (A,))
    C = mk('C', (A,))
    D = mk('D', (B, C))
    E = mk('E', (B,))
    F = mk('F', (object,))
    G = mk('G', (E, F))
    lat = {'A': A, 'B': B, 'C': C, 'D': D, 'E': E, 'F': F, 'G': G}
    if variant < 0:
        lat['O'] = object        # only in histories that run in a fork of their own (a printer for object affects everything)
    return lat


def random_lattice_spec(rng):
    """a random class hierarchy as [(name, (base names...)), ...]; long chains are likely (depth matters: the package walks the MRO), and every
    spec is validated here so that building it later cannot fail on an inconsistent MRO"""
    n = rng.randint(3, 18)
    chain = rng.choice((0.3, 0.6, 0.9))
    spec, built = [], {}
    for i in range(n):
        name = 'N%d' % i
        if i == 0:
            bases = ()
        elif rng.random() < chain:
            bases = ('N%d' % (i - 1),)
        else:
            bases = tuple(rng.sample(['N%d' % j for j in range(i)], min(i, rng.choice((1, 1, 2, 2, 3)))))
        try:
            cls = type(name, tuple(built[b] for b in bases) or (object,), {})
        except TypeError:
            bases = ('N%d' % (i - 1),)
            cls = type(name, (built[bases[0]],), {})
        built[name] = cls
        spec.append((name, bases))
    return tuple(spec)


def lattice_from_spec(spec):
    _uid[0] += 1
    mod = 'verif_rlattice_%d' % _uid[0]
    lat = {}
    for name, bases in spec:
        qual = ('Outer.' + name) if name.endswith(('3', '7')) else name
        lat[name] = type(name, tuple(lat[b] for b in bases) or (object,), {'__module__': mod, '__qualname__': qual})
    return lat


def teardown(lat):
    """test teardown: registrations by name that were never resolved, and predicates, would otherwise pile up in the forked child from history to
    history (the number of pending by-name registrations is visible to the package: it may legitimately choose its search order by it)"""
    for cls in lat.values():
        if cls is not object:
            ppm._DEFERRED_DISPATCH_BY_NAME.pop(cls.__module__ + '.' + cls.__qualname__, None)
    ppm._PREDICATE_REGISTRY[:] = [(p_, fn) for p_, fn in ppm._PREDICATE_REGISTRY if getattr(fn, 'lattice', None) is not lat]


def make_printer(tag):
    def printer(value, ctx):
        return tag
    printer.tag = tag
    printer.__qualname__ = 'printer_' + tag
    return printer


class Model:
    def __init__(self, lat):
        self.lat = lat
        self.direct = {}      # name -> tag currently in the live registry
        self.pending = {}     # name -> tag awaiting promotion
        self.alt = {}         # name -> set of tags equally acceptable (direct+deferred mix: order unspecified)
        self.preds = []       # (name, tag) in registration order

    def mro(self, n):
        names = [c.__name__ for c in self.lat[n].__mro__ if c is not object]
        if 'O' in self.lat:
            names.append('O')
        return names

    def reg_class(self, n, tag):
        self.direct[n] = tag
        self.alt[n] = {self.pending[n]} if n in self.pending else set()

    def reg_name(self, n, tag):
        self.pending[n] = tag
        self.alt[n] = {self.direct[n]} if n in self.direct else set()

    def reg_pred(self, n, tag):
        self.preds.append((n, tag))

    def promote(self, n):
        tag = self.pending.pop(n)
        old = self.direct.get(n)
        self.direct[n] = tag
        self.alt[n] = {old} if old is not None else set()

    def lookup_promotion(self, n, superclasses):
        """mirrors WHEN a pending registration moves to the live registry (needed to predict later check_deferred=False answers)"""
        if n in self.direct or n == 'O':
            return
        if n in self.pending:
            self.promote(n)
            return
        if superclasses:
            for s in self.mro(n)[1:]:
                if s in self.pending:
                    self.promote(s)
                    return

    def expected_print(self, n):
        """set of acceptable tags, or ('repr',)"""
        for s in self.mro(n):
            if s in self.direct or s in self.pending:
                tags = set(self.alt.get(s, ()))
                if s in self.direct:
                    tags.add(self.direct[s])
                if s in self.pending:
                    tags.add(self.pending[s])
                return tags
        for pn, tag in self.preds:
            if pn in self.mro(n):
                return {tag}
        return None

    def expected_isreg(self, n, cs, cd, rd):
        """True / False / None (unconstrained)"""
        if n == 'O':
            return True          # object always has a printer (the repr fallback is registered for it)
        if n in self.direct:
            return True
        if cd and n in self.pending:
            return True
        if not cs:
            return False
        if cd and any(s in self.pending for s in self.mro(n)[1:]):
            return True
        if any(s in self.direct for s in self.mro(n)):
            return True
        if any(pn in self.mro(n) for pn, _ in self.preds):
            return None
        return False


def live_projection(lat):
    reg = {}
    for n, cls in lat.items():
        fn = ppm.pretty_dispatch.registry.get(cls)
        if fn is not None and fn is not ppm._BASE_DISPATCH:
            inner = fn.args[0] if hasattr(fn, 'args') else fn
            reg[n] = getattr(inner, 'tag', '?')
    pend = {}
    for n, cls in lat.items():
        key = cls.__module__ + '.' + cls.__qualname__
        if key in ppm._DEFERRED_DISPATCH_BY_NAME:
            pend[n] = getattr(ppm._DEFERRED_DISPATCH_BY_NAME[key], 'tag', '?')
    preds = [fn.tag for p, fn in ppm._PREDICATE_REGISTRY if getattr(fn, 'lattice', None) is lat]
    return reg, pend, preds


def run_history(ops, obs):
    """ops: list of tuples. Returns None or (key, message). obs: Counter-like dict for monitor statistics."""
    if ops and ops[0][0] == 'lattice':
        lat = lattice_from_spec(ops[0][1])
        ops = ops[1:]
    else:
        with_object = any(o[1] == 'O' for o in ops)
        lat = make_lattice(-1 if with_object else len(ops) + sum(len(o[1]) + ord(o[1][0]) for o in ops))
    try:
        return _run_history(lat, ops, obs)
    finally:
        teardown(lat)


def _run_history(lat, ops, obs):
    m = Model(lat)
    tagn = [0]

    def newtag():
        tagn[0] += 1
        return 'T%d' % tagn[0]

    for step, op in enumerate(ops):
        kind, n = op[0], op[1]
        cls = lat[n]
        if kind == 'regc':
            tag = newtag()
            register_pretty(cls)(make_printer(tag))
            m.reg_class(n, tag)
        elif kind == 'regn':
            tag = newtag()
            register_pretty(cls.__module__ + '.' + cls.__qualname__)(make_printer(tag))
            m.reg_name(n, tag)
        elif kind == 'regp':
            tag = newtag()
            fn = make_printer(tag)
            fn.lattice = lat
            register_pretty(predicate=lambda v, c=cls: isinstance(v, c))(fn)
            m.reg_pred(n, tag)
        elif kind == 'print':
            inst = cls()
            want = m.expected_print(n)
            try:
                got = prettyprinter.pformat(inst)
            except Exception as e:
                return ('print-raised', 'step %d %r: pformat raised %r' % (step, op, e))
            M.take_warnings()
            m.lookup_promotion(n, True)
            if want is None:
                if got != repr(inst):
                    return ('dispatch-wrong', 'step %d %r: no registration applies, expected repr, got %r' % (step, op, got))
                obs['prints falling back to repr'] += 1
            elif n == 'O' and 'O' in m.pending and 'O' not in m.direct and got == ([t for pn, t in m.preds if pn in m.mro(n)] + [repr(inst)])[0]:
                # object itself always holds the built-in fallback (predicates, then repr) as a direct registration; with a by-name registration pending
                # on top of it the statement does not order the two (same rule as for any class holding both kinds)
                obs['prints with direct+deferred ambiguity'] += 1
            else:
                if got not in want:
                    return ('dispatch-wrong', 'step %d %r: printer %r ran, the model allows %r' % (step, op, got, sorted(want)))
                obs['prints dispatched to a tagged printer'] += 1
                if len(want) > 1:
                    obs['prints with direct+deferred ambiguity'] += 1
        elif kind == 'isreg':
            cs, cd, rd = op[2]
            if not cd and rd:
                try:
                    is_registered(cls, check_superclasses=cs, check_deferred=cd, register_deferred=rd)
                except ValueError:
                    obs['invalid flag combination rejected'] += 1
                except Exception as e:
                    return ('isreg-invalid-flags', 'step %d %r: %r instead of ValueError' % (step, op, e))
                else:
                    return ('isreg-invalid-flags', 'step %d %r: no ValueError for check_deferred=False, register_deferred=True' % (step, op))
            else:
                want = m.expected_isreg(n, cs, cd, rd)
                try:
                    got = is_registered(cls, check_superclasses=cs, check_deferred=cd, register_deferred=rd)
                except Exception as e:
                    return ('isreg-raised', 'step %d %r: %r' % (step, op, e))
                if rd:
                    m.lookup_promotion(n, cs)
                if want is None:
                    obs['is_registered unconstrained (predicate only)'] += 1
                elif bool(got) != want:
                    return ('isreg-wrong', 'step %d %r: is_registered answered %r, the model says %r' % (step, op, got, want))
                else:
                    obs['is_registered answers verified'] += 1
        # state hook: the live registries projected on the lattice must equal the model
        reg, pend, preds = live_projection(lat)
        if reg != m.direct or pend != m.pending or preds != [t for _, t in m.preds]:
            key = 'state-changed-without-register_deferred' if kind == 'isreg' and not op[2][2] else 'registry-state'
            return (key, 'step %d %r: live registries %r / %r / %r differ from the model %r / %r / %r' % (
                step, op, reg, pend, preds, m.direct, m.pending, [t for _, t in m.preds]))
        obs['state hook comparisons'] += 1
    return None


def extras_history_child(ops):
    """in a forked child: histories mixing install_extras(['dataclasses']) - the bundled PREDICATE printer - with a user predicate printer that accepts
    the same instances; the first-registered predicate accepting the value wins, and installing again does not re-order anything.
    Returns (got, expected_kind)."""
    import dataclasses
    M.install_warning_recorder()
    del ppm._PREDICATE_REGISTRY[:]

    @dataclasses.dataclass
    class Point:
        x: int = 1
        y: int = 2
    first = None
    for op in ops:
        if op == 'install':
            prettyprinter.install_extras(['dataclasses'])
            first = first or 'dataclasses'
        elif op == 'regp':
            register_pretty(predicate=lambda v: isinstance(v, Point))(make_printer('USER'))
            first = first or 'user'
        elif op == 'print':
            prettyprinter.pformat(Point(3, 4))
    got = prettyprinter.pformat(Point(5, 2))
    return got, first


def extras_histories(sh):
    ops_pool = ['install', 'regp', 'print']
    n = 0
    for L_ in (1, 2, 3, 4):
        for ops in itertools.product(ops_pool, repeat=L_):
            n += 1
            if not sh.mine(n):
                continue
            status, res = fork_call(extras_history_child, ops, timeout=120)
            if status != 'ok':
                sh.inconclusive.append('extras history %s: %s' % (status, str(res)[:200]))
                continue
            got, first = res
            if first == 'user':
                ok = got == 'USER'
            elif first == 'dataclasses':
                ok = got.endswith('Point(x=5)') and got != 'USER'
            else:
                ok = 'Point(x=5, y=2)' in got        # nothing registered: the dataclass's own repr
            if not ok:
                sh.violation('predicate-order-changed-by-install_extras', 'history %r then print: got %r, but the first-registered predicate printer is %r' % (list(ops), got, first), {'extras_history': list(ops)})
            else:
                sh.counters['histories with install_extras and a competing user predicate verified'] += 1
            sh.case(('extras',) + tuple(ops), True)


def alphabet(names):
    ops = []
    for n in names:
        ops += [('regc', n), ('regn', n), ('regp', n), ('print', n)]
        ops += [('isreg', n, f) for f in FLAGS]
    return ops


def nontrivial(ops):
    if ops and ops[0][0] == 'lattice':
        ops = ops[1:]
    seen_reg = False
    for op in ops:
        if op[0].startswith('reg'):
            seen_reg = True
        elif seen_reg:
            return True
    return False


def batch(arg):
    """runs in a forked child"""
    histories = arg
    from collections import Counter
    obs = Counter()
    viol = []
    M.install_warning_recorder()
    for ops in histories:
        r = run_history(ops, obs)
        if r:
            viol.append((r[0], r[1], ops))
    return obs, viol


def run_shard(sh):
    quick = sh.tier == 'quick'
    L = 3 if quick else 4
    core = alphabet(['A', 'B', 'D', 'E'])
    pending = []

    def flush():
        if not pending:
            return
        status, res = fork_call(batch, list(pending), timeout=900)
        if status != 'ok':
            sh.inconclusive.append('history batch %s: %s' % (status, str(res)[:300]))
        else:
            obs, viol = res
            sh.counters.update(obs)
            for key, msg, ops in viol:
                sh.violation(key, msg, {'history': [list(o) for o in ops]})
        for ops in pending:
            sh.case(tuple(ops), nontrivial(ops))
        del pending[:]

    idx = 0
    for n in range(1, L + 1):
        for ops in itertools.product(core, repeat=n):
            idx += 1
            if not sh.mine(idx):
                continue
            if n == 4 and idx % 3:
                continue
            pending.append(ops)
            if len(pending) >= 400:
                flush()
            if idx % 40000 == 0:
                sh.sample({'history': [list(o) for o in ops]})
    flush()
    sh.counters['exhaustive histories'] += sh.evaluations
    full = alphabet(NAMES)
    for i in range(20000 if quick else 300000):
        idx += 1
        if not sh.mine(idx):
            continue
        rng = V.rng_for('c15r', sh.seed, i)
        regs = [o for o in full if o[0].startswith('reg')]
        prints = [o for o in full if o[0] == 'print']
        queries = [o for o in full if o[0] == 'isreg']
        ops = tuple(rng.choice(regs if rng.random() < 0.45 else (prints if rng.random() < 0.55 else queries)) for _ in range(rng.randint(4, 16)))
        pending.append(ops)
        if len(pending) >= 300:
            flush()
        if i % 2500 == 0:
            sh.sample({'history': [list(o) for o in ops]})
    flush()
    # random class hierarchies (3-18 classes, chains up to 18 deep, multiple inheritance), the hierarchy being part of the case
    for i in range(12000 if quick else 200000):
        idx += 1
        if not sh.mine(idx):
            continue
        rng = V.rng_for('c15l', sh.seed, i)
        spec = random_lattice_spec(rng)
        names = [nm for nm, _ in spec]
        # operations concentrate on one random line of descent (that is where registrations interact)
        leaf = rng.choice(names[len(names) // 2:])
        line = [c.__name__ for c in lattice_from_spec(spec)[leaf].__mro__ if c is not object]
        def pick():
            return rng.choice(line) if rng.random() < 0.8 else rng.choice(names)
        ops = [('lattice', spec)]
        for _ in range(rng.randint(3, 12)):
            r = rng.random()
            if r < 0.45:
                ops.append((rng.choice(('regn', 'regn', 'regc', 'regp')), pick()))
            elif r < 0.8:
                ops.append(('print', pick()))
            else:
                ops.append(('isreg', pick(), rng.choice(FLAGS)))
        ops = tuple(ops)
        sh.counters['histories on random class hierarchies'] += 1
        sh.see('hierarchy depth (longest MRO)', max(len(c.__mro__) for c in lattice_from_spec(spec).values()) - 1)
        pending.append(ops)
        if len(pending) >= 100:
            flush()
        if i % 2500 == 0:
            sh.sample({'history': [list(o) for o in ops]})
    flush()
    extras_histories(sh)
    # histories that register printers for `object` itself (catch-all): global effect, so each runs in a fork of its own
    full_o = alphabet(NAMES + ['O'])
    for i in range(500 if quick else 8000):
        idx += 1
        if not sh.mine(idx):
            continue
        rng = V.rng_for('c15o', sh.seed, i)
        regs = [o for o in full_o if o[0].startswith('reg')]
        prints = [o for o in full_o if o[0] == 'print']
        queries = [o for o in full_o if o[0] == 'isreg']
        ops = [rng.choice([('regc', 'O'), ('regn', 'O'), ('regp', 'O'), ('regc', 'O')])]
        ops += [rng.choice(regs if rng.random() < 0.35 else (prints if rng.random() < 0.5 else queries)) for _ in range(rng.randint(2, 9))]
        rng.shuffle(ops)
        ops = tuple(ops)
        status, res = fork_call(batch, [ops], timeout=300)
        if status != 'ok':
            sh.inconclusive.append('object history %s: %s' % (status, str(res)[:200]))
            continue
        obs, viol = res
        sh.counters.update(obs)
        sh.counters['histories with a printer registered for object'] += 1
        for key, msg, ops_ in viol:
            sh.violation(key, msg, {'history': [list(o) for o in ops_]})
        sh.case(ops, True)


def finalize(m):
    for name in ('prints dispatched to a tagged printer', 'prints falling back to repr', 'is_registered answers verified', 'state hook comparisons',
                 'invalid flag combination rejected', 'prints with direct+deferred ambiguity', 'histories with a printer registered for object',
                 'histories on random class hierarchies'):
        if not m.counters.get(name):
            m.inconclusive.append('monitor never reached: ' + name)


def replay(wit):
    from collections import Counter
    M.install_warning_recorder()
    if 'extras_history' in wit['case']:
        status, res = fork_call(extras_history_child, tuple(wit['case']['extras_history']), timeout=120)
        print('history', wit['case']['extras_history'], '->', res)
        return True
    ops = [tuple(tuple(x) if isinstance(x, list) else x for x in o) for o in wit['case']['history']]
    print('history:')
    for o in ops:
        print('   ', o)
    r = run_history(ops, Counter())
    if r:
        print('VIOLATED', r[0], r[1])
        return False
    print('holds on this case')
    return True


TECHNIQUE = 'runtime model-based oracle over operation histories: declarative dispatch model + state hook comparing the live registries after every operation, exhaustive short histories in forked children'
LEVEL_TEXT = ('Every history up to length 3 (thorough 4, sampled 1:3 at length 4) over 36-48 operations, random histories up to length 12 on a fresh 7-class lattice, on random class hierarchies (3-18 classes, chains up to 18 deep, multiple inheritance), with printers registered for object itself, and all histories up to length 4 over {install_extras, competing user predicate, print} are executed against the real registries; '
              'which printer ran, every is_registered answer and the registry state after every step are compared with a declarative model of the statement.')
LEVEL_NOTE = 'The model mirrors when promotion happens (it is observable through check_deferred=False); ambiguity between direct and pending-deferred registrations on one class is accepted either way.'
