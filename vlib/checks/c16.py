"""C16 - colored output is the plain output plus well-nested styling.

Color is forced on (COLORFUL_FORCE_TRUE_COLORS=1: 24-bit mode makes the expected RGB exact). What cpprint /
colored_render_to_stream write into a StringIO is decoded by an SGR state machine into (char, style state) pairs:
(1) the characters must equal the plain rendering of the same SDoc stream (and pformat's text for values);
(2) each character's state must equal the style of the innermost enclosing *Token* annotation of the stream (non-token
    annotations are transparent), computed from style.style_for_token independently of the renderer's color stack;
(3) the final state must be the reset state; (4) every Token member and every token pushed during the workload has a
mapping; (5) no style may make rendering raise.
"""
import io

import prettyprinter
from prettyprinter import color as pcolor
from prettyprinter import doc as PD
from prettyprinter.layout import layout_smart
from prettyprinter.prettyprinter import CommentAnnotation, python_to_sdocs
from prettyprinter.render import default_render_to_str
from prettyprinter.sdoctypes import SAnnotationPop, SAnnotationPush, SLine
from prettyprinter.syntax import Token
from pygments import styles as pyg_styles

from .. import monitors as M
from .. import sgr
from .. import values as V
from . import c07, c09, c17

ENV = {'COLORFUL_FORCE_TRUE_COLORS': '1'}
RULE = ('values (built-in trees with escapes/bytes, commented trees, stdlib instances, pretty_call user types) through cpprint and annotated document terms (token annotations nested to depth 3 with '
        'non-token annotations inside, outside and between) through colored_render_to_stream, x layout configurations x every pygments style of the installed pygments + GitHubLightStyle + the dark default; '
        'a case is (value or document, configuration, style); non-trivial = the stream contains at least two different token annotations')
ASSUMPTIONS = ['colorful in forced 24-bit mode emits exactly the RGB of the style', 'the SGR decoder in vlib/sgr.py covers the sequences colorful emits (unknown parameters abort the case as a violation)']


def synthetic_styles(n=8):
    """pygments Style classes with seeded random attribute combinations per token (bold/italic/underline, fg, bg, fg+bg, nothing)"""
    from pygments.style import Style
    from pygments import token as T
    out = []
    toks = [T.Keyword.Constant, T.Name.Builtin, T.Name.Entity, T.Name.Function, T.Name.Variable, T.String, T.String.Affix, T.String.Escape,
            T.Number, T.Number.Bin, T.Number.Integer, T.Number.Float, T.Operator, T.Punctuation, T.Comment.Single, T.Comment, T.Name, T.Text]
    for i in range(n):
        rng = V.rng_for('c16style', i)
        styles = {}
        for t in toks:
            parts = []
            for flag in ('bold', 'italic', 'underline'):
                if rng.random() < 0.35:
                    parts.append(flag)
            c = rng.random()
            if c < 0.6:
                parts.append('#%06x' % rng.randrange(1 << 24))
            if rng.random() < 0.35:
                parts.append('bg:#%06x' % rng.randrange(1 << 24))
            if c > 0.9:
                parts.append('#%03x' % rng.randrange(1 << 12))
            styles[t] = ' '.join(parts)
        out.append(('synthetic-%d' % i, type('Synthetic%d' % i, (Style,), {'styles': styles})))
    return out


def all_styles():
    out = synthetic_styles()
    for name in sorted(pyg_styles.get_all_styles()):
        out.append((name, pyg_styles.get_style_by_name(name)))
    out.append(('GitHubLightStyle', pcolor.GitHubLightStyle))
    out.append(('default-dark', pcolor.default_dark_style))
    return out


def hex_rgb(h):
    h = h.lower().lstrip('#')
    if len(h) == 3:
        h = ''.join(c * 2 for c in h)
    return (int(h[0:2], 16), int(h[2:4], 16), int(h[4:6], 16))


def state_for(style, tok):
    pt = pcolor._SYNTAX_TOKEN_TO_PYGMENTS_TOKEN[tok]
    a = style.style_for_token(pt)
    return (hex_rgb(a['color']) if a['color'] else None, hex_rgb(a['bgcolor']) if a['bgcolor'] else None,
            bool(a['bold']), bool(a['italic']), bool(a['underline']))


def expected_chars(sdocs, style, seen_tokens):
    """[(char, state)] the property demands, from the stream's own annotation structure."""
    lines, cur = [], []
    for s in sdocs:
        if isinstance(s, SLine):
            lines.append(cur)
            cur = [s]
        else:
            cur.append(s)
    lines.append(cur)
    out = []
    stack = []        # (annotation value, is token)
    for line in lines:
        last = -1
        for i, s in enumerate(line):
            if isinstance(s, str):
                last = i
        for i, s in enumerate(line):
            if isinstance(s, str):
                text = s.rstrip() if i == last else s
                toks = [a for a, is_tok in stack if is_tok]
                st = state_for(style, toks[-1]) if toks else sgr.RESET
                out.extend((ch, st) for ch in text)
            elif isinstance(s, SLine):
                toks = [a for a, is_tok in stack if is_tok]
                st = state_for(style, toks[-1]) if toks else sgr.RESET
                out.extend((ch, st) for ch in '\n' + ' ' * s.indent)
            elif isinstance(s, SAnnotationPush):
                is_tok = isinstance(s.value, Token)
                if is_tok:
                    seen_tokens.add(s.value)
                stack.append((s.value, is_tok))
            elif isinstance(s, SAnnotationPop):
                if stack:
                    stack.pop()
    return out


def judge(sh, sdocs, written, style, stylename, case, plain_text=None):
    seen = set()
    try:
        want = expected_chars(sdocs, style, seen)
    except KeyError as e:
        sh.violation('token-without-mapping', 'token %r has no pygments mapping' % (e.args[0],), case)
        return False
    for t in seen:
        sh.see('tokens pushed', t.name)
    try:
        got, final, nseq = sgr.decode(written)
    except sgr.DecodeError as e:
        sh.violation('undecodable-output', repr(e), case)
        return False
    text = ''.join(ch for ch, _ in got)
    plain = default_render_to_str(iter(sdocs))
    if text != plain:
        sh.violation('stripped-text-differs', 'text without styling %r differs from the plain rendering %r' % (text[:300], plain[:300]), case)
        return False
    if plain_text is not None and text != plain_text:
        sh.violation('stripped-text-differs-from-pformat', '%r vs pformat %r' % (text[:300], plain_text[:300]), case)
        return False
    if written and final != sgr.RESET:
        sh.violation('stream-not-reset', 'the stream ends in state %r, not in the reset state' % (final,), case)
        return False
    if len(got) != len(want):
        sh.violation('stripped-text-differs', 'length %d vs expected %d' % (len(got), len(want)), case)
        return False
    for i, ((ch, st), (wch, wst)) in enumerate(zip(got, want)):
        if st != wst and not ch.isspace():
            nontoken = any(isinstance(s, SAnnotationPush) and not isinstance(s.value, Token) for s in sdocs)
            key = 'wrong-style' + ('-with-non-token-annotation' if nontoken else '')
            sh.violation(key, 'character %d %r of %r is shown in state %r, its innermost token demands %r (style %s)' % (i, ch, text[:80], st, wst, stylename), case)
            return False
    sh.counters['characters verified'] += len(got)
    sh.counters['SGR sequences decoded'] += nseq
    sh.counters['streams verified'] += 1
    if len(seen) >= 2:
        sh.counters['streams with >= 2 different tokens'] += 1
    sh.see('styles verified', stylename)
    return True


def classify_render_error(style, e):
    toks = pcolor._SYNTAX_TOKEN_TO_PYGMENTS_TOKEN.values()
    if 'underline' in repr(e) and any(style.style_for_token(t)['underline'] for t in toks):
        return 'render-raised-underline-style'
    if any(style.style_for_token(t)['bgcolor'] and not style.style_for_token(t)['color'] for t in toks):
        return 'render-raised-background-only-style'
    return 'render-raised'


def check_value(sh, value, desc, cfg, stylename, style):
    case = {'kind': 'value', 'value': desc, 'cfg': cfg, 'style': stylename}
    full = dict(prettyprinter.get_default_config())
    full.update(cfg)
    M.take_warnings()
    try:
        sdocs = list(python_to_sdocs(value, **full))
        plain = prettyprinter.pformat(value, **cfg)
    except Exception as e:
        sh.counters['value could not be printed plainly (judged elsewhere)'] += 1
        return
    stream = io.StringIO()
    try:
        prettyprinter.cpprint(value, stream=stream, style=style, end='', **cfg)
    except Exception as e:
        key = classify_render_error(style, e)
        sh.violation(key, 'cpprint with style %s raised %r' % (stylename, e), case)
        return
    M.take_warnings()
    judge(sh, sdocs, stream.getvalue(), style, stylename, case, plain)


# ------------------------------------------------------------------ documents
LABELS = ['T:NAME_FUNCTION', 'T:LITERAL_STRING', 'T:COMMENT_SINGLE', 'T:NUMBER_INT', 'X:comment', 'X:object', 'X:int13', 'X:true', 'X:float3']
# non-token annotations that are EQUAL to a token number without being a token (Token is an IntEnum): they must not be styled
_objs = {'X:comment': CommentAnnotation('c'), 'X:object': ('arbitrary', 'annotation'), 'X:int13': 13, 'X:true': True, 'X:float3': 3.0}


def ann_obj(label):
    if label.startswith('T:'):
        return Token[label[2:]]
    return _objs[label]


def build_doc(t):
    if isinstance(t, str):
        return t
    k = t[0]
    if k == 'ann':
        return PD.annotate(ann_obj(t[1]), build_doc(t[2]))
    if k == 'cat':
        return PD.concat([build_doc(c) for c in t[1]])
    if k == 'group':
        return PD.group(build_doc(t[1]))
    if k == 'nest':
        return PD.nest(t[1], build_doc(t[2]))
    if k == 'line':
        return PD.LINE
    if k == 'hardline':
        return PD.HARDLINE
    raise ValueError(t)


def doc_terms():
    shapes = [
        lambda a, b, c: ('ann', a, ('cat', ['aa', ('ann', b, ('cat', ['bb', ('ann', c, 'cc'), 'dd'])), 'ee'])),
        lambda a, b, c: ('cat', ['x', ('ann', a, ('cat', [('ann', b, 'bb'), ' mid ', ('ann', c, 'cc'), ' tail'])), 'y']),
        lambda a, b, c: ('group', ('ann', a, ('cat', ['aaaa', ('nest', 2, ('cat', [('line',), ('ann', b, ('cat', ['bbbb', ('line',), ('ann', c, 'cccc'), ('line',), 'b2'])), ('line',), 'a2']))]))),
        lambda a, b, c: ('cat', [('ann', a, 'a'), ('ann', b, ('cat', [('ann', c, ''), 'b'])), ('hardline',), ('ann', c, ('cat', ['c ', ('hardline',), ' c']))]),
    ]
    for a in LABELS:
        for b in LABELS:
            for c in LABELS:
                for i, sh_ in enumerate(shapes):
                    yield (a, b, c, i), sh_(a, b, c)


def check_doc(sh, key, term, width, stylename, style):
    case = {'kind': 'doc', 'labels': list(key[:3]), 'shape': key[3], 'width': width, 'style': stylename}
    sdocs = list(layout_smart(build_doc(term), width=width, ribbon_frac=1.0))
    stream = io.StringIO()
    try:
        pcolor.colored_render_to_stream(stream, iter(sdocs), style=style)
    except Exception as e:
        sh.violation(classify_render_error(style, e), 'colored_render_to_stream with style %s raised %r' % (stylename, e), case)
        return
    judge(sh, sdocs, stream.getvalue(), style, stylename, case)


def default_style_sequences(sh, quick):
    """cpprint WITHOUT a style argument after the default style was switched (set_default_style / set_default_config(style=...)),
    several times in one process: each output must be in the style that is the default at that moment"""
    styles = dict(all_styles())
    vals = [[1, 2.5, 'a\nb', b'x', None, {'k': (1,)}], prettyprinter.comment(['x', 1], 'note'), c17.gen_holder(V.rng_for('c16ds'))[0], {'key': [True, 1.5e22, 'text']}]
    for i in range(40 if quick else 1500):
        if not sh.mine(i):
            continue
        rng = V.rng_for('c16seq', sh.seed, i)
        steps = [rng.choice(['light', 'dark', 'cfg-light', 'cfg-dark', 'class']) for _ in range(rng.randint(2, 6))]
        for j, how in enumerate(steps):
            if how == 'light':
                prettyprinter.set_default_style('light')
                want = pcolor.default_light_style
            elif how == 'dark':
                prettyprinter.set_default_style('dark')
                want = pcolor.default_dark_style
            elif how == 'cfg-light':
                prettyprinter.set_default_config(style='light')
                want = pcolor.default_light_style
            elif how == 'cfg-dark':
                prettyprinter.set_default_config(style='dark')
                want = pcolor.default_dark_style
            else:
                name = rng.choice(sorted(styles))
                prettyprinter.set_default_style(styles[name])
                want = styles[name]
            value = rng.choice(vals)
            case = {'kind': 'default-style-sequence', 'i': i, 'seed': sh.seed, 'step': j, 'steps': steps[:j + 1]}
            full = dict(prettyprinter.get_default_config())
            sdocs = list(python_to_sdocs(value, **full))
            stream = io.StringIO()
            try:
                prettyprinter.cpprint(value, stream=stream, end='')
            except Exception as e:
                sh.violation(classify_render_error(want, e), 'cpprint with the default style raised %r' % (e,), case)
                continue
            if judge(sh, sdocs, stream.getvalue(), want, 'default:' + how, case):
                sh.counters['default-style outputs verified after a style switch'] += 1
            sh.case(('defstyle', i, j))
    prettyprinter.set_default_style('dark')


def value_sources(sh, quick):
    seed = sh.seed
    n = 60 if quick else 2000
    for i in range(n):
        yield ('builtin', i), lambda i=i: V.build(V.rand_tree(V.rng_for('c16b', seed, i), depth=3, budget=[8]))
    yield ('escapes', 0), lambda: ['tab\there', 'nl\nq\'q"', b'by\x00tes\xff', '\\back', 'é中\U0001f600', {'k\n': b'v\\'}]
    for i in range(n):
        def commented(i=i):
            rng = V.rng_for('c16c', seed, i)
            shape = c09.rand_shape(rng, rng.randint(2, 6))
            slots = [(j, 'c') for j, kind, nch in c09.nodes_of(shape) if rng.random() < 0.5] or [(0, 'c')]
            return V.build(c09.to_recipe(shape, [0, 0], c09.make_marks(slots, rng)), c09.ENVB)
        yield ('commented', i), commented
    insts = list(c07.gen_instances(V.rng_for('c16s', seed), True))
    for i, (tname, inst) in enumerate(insts):
        if quick and i % 6:
            continue
        yield ('stdlib', i), lambda inst=inst: [inst]
    for i in range(n):
        yield ('pretty_call', i), lambda i=i: c17.gen_holder(V.rng_for('c16p', seed, i))[0]


def run_shard(sh):
    M.install_warning_recorder()
    quick = sh.tier == 'quick'
    styles = all_styles()
    missing = [t.name for t in Token if t not in pcolor._SYNTAX_TOKEN_TO_PYGMENTS_TOKEN]
    if missing and sh.k == 0:
        sh.violation('token-without-mapping', 'members of syntax.Token without a pygments mapping: %r' % missing, {'kind': 'mapping', 'missing': missing})
    idx = 0
    for key, thunk in value_sources(sh, quick):
        idx += 1
        if not sh.mine(idx):
            continue
        rng = V.rng_for('c16v', sh.seed, idx)
        value = thunk()
        chosen = rng.sample(styles, 6 if quick else 14) if key[0] != 'escapes' else styles
        for stylename, style in chosen:
            cfg = rng.choice([{}, {'width': 20}, {'width': 40, 'indent': 2}, {'width': 1, 'ribbon_width': 1, 'indent': 1}, {'width': rng.randint(1, 120), 'ribbon_width': rng.randint(1, 120)}])
            check_value(sh, value, {'source': key[0], 'i': key[1], 'seed': sh.seed}, cfg, stylename, style)
            sh.case((key, sorted(cfg.items()), stylename))
        if idx % 60 == 0:
            sh.sample({'value source': key, 'styles': [s for s, _ in chosen][:4]})
    # every style on a fixed set of values that pushes every token the printers emit
    fixed = [[1, 2.5, 'a\nb', b'x', None, True, {'k': (1,)}, {1, 2}], prettyprinter.comment([1], 'note'), c17.gen_holder(V.rng_for('c16fixed'))[0],
             [c for c in list(c07.gen_instances(V.rng_for('c16s', 0), True))[::40]]]
    for si, (stylename, style) in enumerate(styles):
        idx += 1
        if not sh.mine(idx):
            continue
        for vi, v in enumerate(fixed):
            for cfg in ({}, {'width': 10}):
                check_value(sh, v, {'source': 'fixed', 'i': vi}, cfg, stylename, style)
                sh.case(('fixed', vi, sorted(cfg.items()), stylename))
    default_style_sequences(sh, quick)
    for key, term in doc_terms():
        idx += 1
        if not sh.mine(idx):
            continue
        rng = V.rng_for('c16d', sh.seed, idx)
        for stylename, style in (rng.sample(styles, 3 if quick else 12)):
            for width in (80, 6):
                check_doc(sh, key, term, width, stylename, style)
                sh.case(('doc', key, width, stylename))
        if idx % 200 == 0:
            sh.sample({'document labels': key[:3], 'shape': key[3]})


def finalize(m):
    for name in ('characters verified', 'SGR sequences decoded', 'streams verified', 'streams with >= 2 different tokens', 'default-style outputs verified after a style switch'):
        if not m.counters.get(name):
            m.inconclusive.append('monitor never reached: ' + name)
    nstyles = len(all_styles())
    if len([x for x in m.sets.get('styles verified', ()) if not x.startswith('default:')]) < nstyles and not any(v['key'].startswith('render-raised') for v in m.violations):
        m.inconclusive.append('only %d of %d styles were verified' % (len(m.sets.get('styles verified', ())), nstyles))
    m.notes['styles installed'] = nstyles
    if m.counters.get('SGR sequences decoded', 0) == 0:
        m.inconclusive.append('no escape sequence was produced: color is not forced on')


def replay(wit):
    M.install_warning_recorder()
    from ..runner import Shard
    sh = Shard('replay', wit.get('tier', 'quick'), wit.get('seed', 0), 0, 1)
    c = wit['case']
    styles = dict(all_styles())
    if c['kind'] == 'doc':
        for key, term in doc_terms():
            if list(key[:3]) == c['labels'] and key[3] == c['shape']:
                print('document:', term)
                check_doc(sh, key, term, c['width'], c['style'], styles[c['style']])
    elif c['kind'] == 'value':
        d = c['value']
        val = None
        if d['source'] == 'fixed':
            print('fixed value', d['i'])
            fixed = [[1, 2.5, 'a\nb', b'x', None, True, {'k': (1,)}, {1, 2}], prettyprinter.comment([1], 'note'), c17.gen_holder(V.rng_for('c16fixed'))[0],
                     [x for x in list(c07.gen_instances(V.rng_for('c16s', 0), True))[::40]]]
            val = fixed[d['i']]
        else:
            sh.seed = d.get('seed', 0)
            for key, thunk in value_sources(sh, wit.get('tier', 'quick') == 'quick'):
                if key == (d['source'], d['i']):
                    val = thunk()
                    break
        print('value:', repr(val)[:300], 'cfg', c['cfg'], 'style', c['style'])
        check_value(sh, val, d, c['cfg'], c['style'], styles[c['style']])
    else:
        print(c)
    for v in sh.violations:
        print('VIOLATED', v['key'], v['what'][:700])
    if not sh.violations:
        print('holds on this case')
    return not sh.violations


LEVEL = 'exploration'
TECHNIQUE = 'runtime monitor: SGR state-machine decoder over the recorded colored stream vs the annotation structure of the SDoc stream, all installed pygments styles, color forced on'
LEVEL_TEXT = ('What cpprint / colored_render_to_stream really write (24-bit color forced on) is decoded character by character and compared with the plain rendering and with the style of the innermost '
              'enclosing syntax token computed independently from the SDoc stream, for values from four generators and 864 annotated documents, under every installed pygments style plus the two bundled ones.')
LEVEL_NOTE = 'Whitespace characters are compared for text only (style differences on blanks are not judged); styles are sampled per value except on a fixed token-covering set which runs under all styles.'
ANCHORS = ['color.colored_render_to_stream', 'color.styleattrs_to_colorful', 'layout.best_layout']
