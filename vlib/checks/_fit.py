"""Shared run for C05 (a flat group never overflows) and C06 (what fits is put on one line).

Classic-algebra terms (text, concat, nest, group, line, softline, hardline, always_break, align; annotate allowed) are
laid out by the real engine; the group decisions are recovered from the emitted stream by refsem.Matcher. Several
assignments can explain one output, so the verdict is existential: the run passes iff SOME assignment consistent with the
stream satisfies the property's obligations (the engine's real decisions are such a witness when the engine is right):
  C05: every group labelled flat has its line end <= min(W, group indent + R)
  C06: every group labelled broken that contains no forced break would not have fitted (refsem.would_fit: page/ribbon
       overflow, smart look-ahead overflow on a following more-indented line, or a forced break in the scanned region).
Membership is decided WITHOUT the forcing clause (a hardline / always_break inside a flat group is C04's business - incl. its listed
finding - not judged here), so the group decisions are recovered even from layouts C04 rejects for that reason.
"""
import prettyprinter
import prettyprinter.layout as L

from .. import docs as D
from .. import monitors as M
from .. import refsem as R
from .. import values as V

FRACS = [1.0, 1.0, 0.9, 0.5, 0.33, 0.1, 0.75, 0.95, 0.25, 0.66, 0.05, 0.531, 0.899]


def check_term(sh, which, term, width, frac, strat):
    case = {'term': D.to_json(term), 'show': D.show(term), 'width': width, 'ribbon_frac': frac, 'strategy': strat}
    try:
        fn = L.layout_smart if strat == 'smart' else L.layout_fast
        sdocs = list(fn(D.build(term), width=width, ribbon_frac=frac))
    except Exception as e:
        sh.counters['layout raised (judged by C04)'] += 1
        return
    st = R.Stream(sdocs)
    if any(it[0] == 'nl' and it[1] < 0 for it in st.items):
        # a negative running indentation (negative nest offsets) makes the engine's column differ from the rendered column:
        # page / ribbon arithmetic is not meaningful there; such layouts are left to C04 (structural membership only)
        sh.counters['layouts skipped: negative indentation'] += 1
        return
    smart = strat == 'smart'
    try:
        base = R.Matcher(term, st, width, frac, smart, strict=True, forcing=False)
        if not base.run():
            sh.counters['not a member of the layout set (judged by C04)'] += 1
            return
        m = R.Matcher(term, st, width, frac, smart, strict=True, forcing=False, c05=(which == 'C05'), c06=(which == 'C06'))
        ok = m.run()
    except R.Budget:
        sh.counters['matcher budget exhausted'] += 1
        return
    if not ok:
        if which == 'C05':
            sh.violation('flat-group-overflows', 'no assignment of the groups explains the output without a flat group whose line passes min(W, indent+R): %s at width %d frac %s (%s) -> %r'
                         % (D.show(term), width, frac, strat, st.text()), case)
        else:
            sh.violation('group-broken-although-it-fits', 'every assignment explaining the output breaks a group that would have fitted: %s at width %d frac %s (%s) -> %r'
                         % (D.show(term), width, frac, strat, st.text()), case)
        return
    for k, v in m.stats.items():
        sh.counters['witness: ' + k] += v
    sh.counters['layouts judged'] += 1
    if m.stats['flat_groups'] and m.stats['broken_groups']:
        sh.counters['layouts with both flat and broken groups'] += 1


def classic(term):
    return not D.contains(term, ('fill', 'fc', 'hang'))


def configs(rng, term, n):
    """boundary-directed: widths around the flat widths of the groups, mostly with frac 1.0 (an off-by-one only shows at exact fit)"""
    ws = D.interesting_widths(term)
    out = []
    for _ in range(n):
        if ws and rng.random() < 0.75:
            w = rng.choice(ws) + rng.choice([0, 0, 0, 1, 2, 3, 5])
            f = 1.0 if rng.random() < 0.6 else rng.choice(FRACS)
        else:
            w = rng.randint(1, 40) if rng.random() < 0.8 else rng.randint(41, 120)
            f = rng.choice(FRACS)
        out.append((min(120, max(1, w)), f))
    return out


def run_terms(sh, which):
    quick = sh.tier == 'quick'
    S = 5 if quick else 6
    idx = 0
    for n in range(1, S + 1):
        for term in D.enum_terms(n, D.CLASSIC_LEAVES, classic=True):
            idx += 1
            if not sh.mine(idx):
                continue
            if not D.contains(term, ('group',)):
                continue
            if n == 6 and idx % 3:
                continue
            rng = V.rng_for('fit', sh.seed, idx)
            for (w, f) in configs(rng, term, 4 if quick else 10):
                for strat in ('smart', 'fast'):
                    check_term(sh, which, term, w, f, strat)
                    sh.case((term, w, f, strat))
            sh.counters['exhaustive terms with a group'] += 1
            if idx % 1500 == 0:
                sh.sample({'term': D.show(term)})
    for i in range(600 if quick else 20000):
        idx += 1
        if not sh.mine(idx):
            continue
        rng = V.rng_for('fitlong', sh.seed, i)
        term = D.long_tail_terms(rng)
        fw = D.flat_width(term) or 40
        for w in {fw, fw - 1, fw - 2, fw + 1, max(1, fw - rng.randint(3, 30)), rng.randint(5, 120)}:
            if w < 1:
                continue
            for f in (1.0, rng.choice(FRACS)):
                for strat in ('smart', 'fast'):
                    check_term(sh, which, term, w, f, strat)
                    sh.case((term, w, f, strat))
        sh.counters['long-tail terms (deep look-ahead)'] += 1
    for i in range(8000 if quick else 1000000):
        idx += 1
        if not sh.mine(idx):
            continue
        rng = V.rng_for('fitr', sh.seed, i)
        term = D.rand_term(rng, depth=rng.randint(2, 6), classic=True)
        if not D.contains(term, ('group',)) or D.size(term) > 150:
            continue
        for (w, f) in configs(rng, term, 4):
            for strat in ('smart', 'fast'):
                check_term(sh, which, term, w, f, strat)
                sh.case((term, w, f, strat))
        sh.counters['random terms with a group'] += 1
        if i % 3000 == 0:
            sh.sample({'term': D.show(term)[:300]})


def one_line_values(sh):
    """pformat level of C06: a value whose unbounded rendering is one line of L columns prints as that line at every width >= L and ribbon_width >= L."""
    from . import c07, c17
    quick = sh.tier == 'quick'
    M.install_warning_recorder()
    insts = list(c07.gen_instances(V.rng_for('c06inst', sh.seed), True))
    n = 6000 if quick else 150000
    for i in range(n):
        if not sh.mine(i):
            continue
        rng = V.rng_for('c06v', sh.seed, i)
        kind = i % 5
        if i % 11 == 0:
            import decimal
            import fractions
            pool = [decimal.Decimal('1.25'), fractions.Fraction(1, 3), complex(1, -2), range(3), bytearray(b'xy'), slice(1, 2), memoryview(b'ab').obj and 3j, NotImplemented]
            n_el = rng.choice([1, 2, 5, 12, 20])
            els = [rng.choice(pool) for _ in range(n_el)]
            value = rng.choice([els, tuple(els), {'k': els}, [els[:3], els]])
            recipe = 'repr-fallback-elements'
        elif i % 13 == 5:
            # sequences just below the printers' "cannot fit any practical line" shortcut (shortest possible one-line form > 150 columns, i.e. more than
            # 50 elements): up to 50 elements no break is forced, whatever the elements are
            n_el = rng.choice([50, 50, 50, 49, 48, 40, 33, 21, rng.randint(21, 50)])
            mk = rng.choice(['digits', 'ints', 'strs', 'mixed'])
            els = [j % 10 if mk == 'digits' else (j * 7 if mk == 'ints' else ('s%d' % j if mk == 'strs' else (j, 's%d' % j, float(j), None, True)[j % 5])) for j in range(n_el)]
            seq = rng.choice([list, tuple, list, lambda e: e])(els)
            if mk in ('ints', 'strs') and rng.random() < 0.3:
                seq = rng.choice([set, frozenset])(els)
            value = rng.choice([seq, seq, [seq], {'k': seq}, (seq, 1)])
            recipe = 'sequence-of-up-to-50-elements:%d' % n_el
            sh.counters['sequences of 21-50 elements (below the practical-width shortcut)'] += 1
        elif i % 13 == 7:
            # strings whose printed width differs from a naive measure: both kinds of quotes in different proportions, backslashes, escapes, non-ASCII -
            # inside containers that fit exactly (the quote is chosen by counting, repr() would choose differently)
            toks = ["it's", "'a'", '"b', 'cd', "don't", "''", '"', '\\', 'x', "'", '""', 'é', '\t', "she said 'no', 'never'", 'and "no', '\x00']
            def qs():
                t = ' '.join(rng.choice(toks) for _ in range(rng.randint(1, 5)))
                return t.encode('latin-1', 'replace') if rng.random() < 0.3 else t
            value = rng.choice([lambda: [qs()], lambda: [[qs()]], lambda: (qs(), 1), lambda: {'k': [qs()]}, lambda: [qs(), qs()], lambda: {qs(): 1}, lambda: [[[qs(), 2]]],
                                lambda: {'key': qs()}])()
            recipe = 'quote-mix-strings'
            sh.counters['containers of strings mixing both quote kinds'] += 1
        elif kind == 3:
            tname, value = insts[rng.randrange(len(insts))]
            value = rng.choice([value, [value], {'k': value}])
            recipe = None
        elif kind == 4:
            value = c17.gen_holder(rng)[0]
            recipe = None
        else:
            recipe = V.rand_tree(rng, depth=rng.randint(1, 4), budget=[rng.randint(1, 12)])
            value = V.build(recipe)
        try:
            line = prettyprinter.pformat(value, width=10 ** 6, ribbon_width=10 ** 6)
        except Exception:
            continue
        M.take_warnings()
        if '\n' in line:
            if recipe is not None and small_plain(value) and (recipe != 'repr-fallback-elements' or True):
                # no printer-forced break applies (no comment, no dict with more than 2 pairs, no long sequence):
                # every group is unforced and everything fits into 10**6 columns
                sh.violation('small-value-not-on-one-line', 'a value without any printer-forced break is not printed on one line at width 10**6: %r' % line[:300],
                             {'recipe': recipe, 'width': 10 ** 6, 'L': None, 'value_repr': repr(value) if isinstance(recipe, str) else None})
            else:
                sh.counters['values whose unbounded form is multi-line (printer-forced: dict > 2 pairs / long sequence / comment)'] += 1
            continue
        Ln = len(line)
        cfgs = [(Ln, Ln), (Ln + 1, Ln + 1), (Ln + 2, Ln), (2 * Ln, Ln), (Ln, 2 * Ln + 5), (Ln + rng.randint(3, 50), Ln + rng.randint(0, 50)),
                (max(Ln, 79), max(Ln, 71)), (Ln + rng.randint(100, 400), Ln)]
        for (w, r) in cfgs:
            if w < 1 or r < 1:
                continue
            cfg = {'width': w, 'ribbon_width': r}
            if rng.random() < 0.3:
                cfg['indent'] = rng.choice([1, 2, 8])
            got = prettyprinter.pformat(value, **cfg)
            M.take_warnings()
            sh.case(('value', i, w, r), nontrivial=Ln > 4)
            if got != line:
                sh.violation('one-line-value-broken', 'value with one-line form of %d columns is not printed as that line at width=%d ribbon_width=%d: %r' % (Ln, w, r, got[:300]),
                             {'recipe': recipe, 'i': i, 'seed': sh.seed, 'width': w, 'ribbon_width': r, 'cfg': cfg, 'L': Ln,
                              'value_repr': repr(value) if isinstance(recipe, str) else None})
            else:
                sh.counters['one-line values verified at width, ribbon >= L'] += 1
                if w == Ln or r == Ln:
                    sh.counters['one-line values verified at exactly L'] += 1
                if w != r:
                    sh.counters['one-line values verified with ribbon_width != width'] += 1
        sh.see('one-line value kinds', ['builtin', 'builtin', 'builtin', 'stdlib', 'pretty_call'][kind])


def small_plain(v):
    """True if none of the printers' documented forced breaks applies to v (dict with > 2 pairs; sequences whose shortest possible one-line form,
    2 + 3n - 2 columns, exceeds the printers' MAX_PRACTICAL_RIBBON_WIDTH of 150, i.e. more than 50 elements)."""
    if isinstance(v, dict):
        return len(v) <= 2 and all(small_plain(k) and small_plain(x) for k, x in v.items())
    if isinstance(v, (list, tuple, set, frozenset)):
        return len(v) <= 50 and all(small_plain(x) for x in v)
    return True


def replay_term(which, wit):
    from ..runner import Shard
    sh = Shard('replay', 0, 0, 1)
    c = wit['case']
    if 'recipe' in c and (c['recipe'] is None or (isinstance(c['recipe'], str) and not c.get('value_repr'))):
        print('non-recipe value (stdlib / pretty_call), index', c.get('i'), 'seed', c.get('seed'), c)
        return False
    if 'recipe' in c:
        if isinstance(c['recipe'], str):
            import decimal
            import fractions
            value = eval(c['value_repr'], {'Decimal': decimal.Decimal, 'Fraction': fractions.Fraction})
        else:
            value = V.build(c['recipe'])
        line = prettyprinter.pformat(value, width=10 ** 6, ribbon_width=10 ** 6)
        got = prettyprinter.pformat(value, **(c.get('cfg') or {'width': c['width'], 'ribbon_width': c['width']}))
        if c.get('L') is None:
            ok = '\n' not in line or not small_plain(value)
            print('unbounded form:\n' + line)
            print('holds on this case' if ok else 'VIOLATED small-value-not-on-one-line')
            return ok
        print('one-line form (%d columns): %s' % (len(line), line))
        print('at width=ribbon=%d:\n%s' % (c['width'], got))
        ok = got == line
        print('holds on this case' if ok else 'VIOLATED one-line-value-broken')
        return ok
    term = D.from_json(c['term'])
    print('document:', D.show(term))
    print('width=%s ribbon_frac=%s strategy=%s' % (c['width'], c['ribbon_frac'], c['strategy']))
    fn = L.layout_smart if c['strategy'] == 'smart' else L.layout_fast
    print('text    :\n' + R.Stream(list(fn(D.build(term), width=c['width'], ribbon_frac=c['ribbon_frac']))).text())
    check_term(sh, which, term, c['width'], c['ribbon_frac'], c['strategy'])
    for v in sh.violations:
        print('VIOLATED', v['key'], v['what'][:700])
    if not sh.violations:
        print('holds on this case')
    return not sh.violations
