"""C01 - printed built-in values evaluate back to an equal value of the same types.

Oracle: eval("(" + pformat(v, cfg) + "\n)") must have the canonical form expected for v
(types at every position, float sign/nan, dict entry order - sorted when requested and the keys
are totally ordered, otherwise only the multiset of pairs). No warning may be issued.
The string-helper contracts (monitors.install_string_contracts) are active on every print.
"""
import prettyprinter

from .. import monitors as M
from .. import values as V

RULE = ('bounded-exhaustive value trees (<= N nodes over an adversarial leaf alphabet) + seeded random trees '
        '+ needle family (short leaf under 1..40 nestings), each at seeded configurations and at the boundary '
        'widths L-1, L, L+1 of its one-line form; a case is (canonical value, configuration); non-trivial = '
        'the output has more than one line or contains a string/bytes/float/container (i.e. not a bare int/None)')
ASSUMPTIONS = ['CPython eval/compile and ast are correct',
               'canonical form in vlib.values.canon identifies type and value at every position']
WATCHDOG = {'quick': 900, 'thorough': 7200}


def configs_for(rng, n, one_line_len):
    cfgs = [V.rand_config(rng) for _ in range(n)]
    if one_line_len is not None:
        for w in (one_line_len - 1, one_line_len, one_line_len + 1):
            if 1 <= w <= 200:
                cfgs.append({'width': w, 'ribbon_width': w, 'indent': 4, 'sort_dict_keys': rng.random() < 0.5})
    return cfgs


def check_one(sh, recipe, value, cfg, origin):
    """Runs one print under the monitors; records violations. Returns output text or None."""
    case = {'recipe': recipe, 'cfg': cfg, 'origin': origin}
    try:
        text, ws = M.pp(value, **cfg)
    except M.ContractViolation as e:
        sh.violation(e.key, e.what, dict(case, detail=e.detail))
        return None
    except M.StepBudgetExceeded as e:
        sh.violation('str_to_lines-nontermination', str(e), case)
        return None
    except Exception as e:
        sh.violation('pformat-raised', 'pformat raised %r' % (e,), case)
        return None
    if ws:
        key = 'fallback-warning' if M.fallback_warnings(ws) else 'unexpected-warning'
        sh.violation(key, 'warning during print: %s' % (ws[0][1][:300],), case)
        return text
    exp, specified = V.expected_canon(value, cfg['sort_dict_keys'])
    try:
        got = V.evaluate(text)
    except Exception as e:
        sh.violation(classify_eval_error(value, text), 'output does not evaluate: %r; output=%r' % (e, text[:300]), case)
        return text
    gc = V.canon(got)
    if specified:
        if gc != exp:
            if V.canon_unordered_dicts(gc) == V.canon_unordered_dicts(exp):
                sh.violation('dict-order', 'dict entries in the wrong order; output=%r' % text[:300], case)
            else:
                sh.violation(classify_mismatch(value, got), 'evaluates to a different value: %r; output=%r' % (got, text[:300]), case)
    else:
        sh.counters['order-unspecified'] += 1
        if V.canon_unordered_dicts(gc) != V.canon_unordered_dicts(exp):
            sh.violation(classify_mismatch(value, got), 'evaluates to a different value: %r; output=%r' % (got, text[:300]), case)
    return text


def has_empty_string(v):
    if isinstance(v, (str, bytes)):
        return len(v) == 0
    if isinstance(v, dict):
        return any(has_empty_string(k) or has_empty_string(x) for k, x in v.items())
    if isinstance(v, (list, tuple, set, frozenset)):
        return any(has_empty_string(x) for x in v)
    return False


def classify_eval_error(value, text):
    return 'eval-error-with-empty-string' if has_empty_string(value) else 'eval-error'


def classify_mismatch(value, got):
    return 'value-mismatch-with-empty-string' if has_empty_string(value) else 'value-mismatch'


def nontrivial(recipe, text):
    return text is not None and ('\n' in text or recipe[0] not in ('int', 'none', 'bool', 'ellipsis'))


def run_case(sh, recipe, cfgs, origin):
    value = V.build(recipe, V.BuildEnv(share={}) if origin.endswith('-aliased') else None)
    cv = V.canon(value)
    for cfg in cfgs:
        text = check_one(sh, recipe, value, cfg, origin)
        sh.case((cv, sorted(cfg.items())), nontrivial(recipe, text))
        if text is not None:
            if '\n' in text:
                sh.counters['multi-line outputs'] += 1
            else:
                sh.counters['one-line outputs'] += 1
    return value


def one_line_len(value):
    try:
        t = prettyprinter.pformat(value, width=10 ** 6, ribbon_width=10 ** 6)
    except BaseException:
        return None
    M.take_warnings()
    return len(t) if '\n' not in t else None


def run_shard(sh):
    M.install_warning_recorder()
    M.install_string_contracts()
    quick = sh.tier == 'quick'
    idx = 0
    # (a) bounded-exhaustive trees
    N = 3 if quick else 4
    for n in range(1, N + 1):
        leaves = V.leaf_recipes(small=(n == 4))
        for recipe in V.trees(n, leaves):
            idx += 1
            if not sh.mine(idx):
                continue
            rng = V.rng_for('c01a', sh.seed, idx)
            value = V.build(recipe)
            L = one_line_len(value)
            ncfg = 3 if quick else (6 if n == 4 else 24)
            run_case(sh, recipe, configs_for(rng, ncfg, L), 'exhaustive-%d' % n)
            sh.counters['exhaustive trees'] += 1
            if idx % 2500 == 1:
                sh.sample({'recipe': recipe, 'origin': 'exhaustive-%d' % n})
    # (b) random trees
    nrand = 4000 if quick else 120000
    for i in range(nrand):
        idx += 1
        if not sh.mine(idx):
            continue
        rng = V.rng_for('c01b', sh.seed, i)
        recipe = V.rand_tree(rng)
        origin = 'random'
        if i % 5 == 3:
            # the same container OBJECT at two places (a memo keyed by identity shows only then)
            aliased = V.alias_recipe(recipe, rng)
            if aliased is not None:
                recipe, origin = aliased, 'random-aliased'
                sh.counters['random trees with an aliased container'] += 1
        value = V.build(recipe)
        L = one_line_len(value)
        run_case(sh, recipe, configs_for(rng, 4 if quick else 8, L), origin)
        sh.counters['random trees'] += 1
        if i % 1500 == 7:
            sh.sample({'recipe': recipe, 'origin': 'random'})
    # (c) needle family: a short leaf under deep nesting ("no width left")
    leaves = [['str', ''], ['str', 'a'], ['bytes', ''], ['bytes', 'ab'], ['str', 'lorem ipsum dolor'], ['float', '-0.0'], ['tuple', []]]
    depths = range(1, 41, 3 if quick else 1)
    for d in depths:
        for leaf in leaves:
            for variant in range(2 if quick else 6):
                idx += 1
                if not sh.mine(idx):
                    continue
                rng = V.rng_for('c01c', sh.seed, d, repr(leaf), variant)
                recipe = V.needle(d, leaf, None if variant == 0 else rng)
                cfgs = [{'width': 79, 'ribbon_width': 71, 'indent': 4, 'sort_dict_keys': False},
                        {'width': rng.choice([10, 20, 40]), 'ribbon_width': rng.choice([5, 20, 71]), 'indent': rng.choice([1, 2, 4, 8]), 'sort_dict_keys': True}]
                run_case(sh, recipe, cfgs, 'needle-%d' % d)
                sh.counters['needle cases'] += 1
    # (d) key sorting: small key domains, so that equal members / common prefixes are frequent; every key object is built afresh
    #     (equal but not identical), insertion order shuffled
    atoms = [['float', '1.5'], ['str', 'alice'], ['int', 10 ** 20], ['int', 7], ['str', 'bob'], ['bytes', 'k'], ['float', '-0.0'], ['tuple', []], ['tuple', [['int', 1]]], ['bool', True]]
    for i in range(1500 if quick else 40000):
        idx += 1
        if not sh.mine(idx):
            continue
        rng = V.rng_for('c01d', sh.seed, i)
        kind = rng.choice(['tuple', 'tuple', 'tuple', 'str', 'int', 'mixed'])
        keys = []
        for _ in range(rng.randint(2, 7)):
            if kind == 'tuple':
                keys.append(['tuple', [rng.choice(atoms[:5]) for _ in range(rng.randint(1, 3))]])
            elif kind == 'str':
                keys.append(['str', rng.choice(['a', 'b', 'ab', 'alice', 'Alice', ''])])
            elif kind == 'int':
                keys.append(rng.choice([['int', rng.randint(-3, 3)], ['float', rng.choice(['0.5', '2.0', '-1.5'])], ['bool', rng.random() < 0.5]]))
            else:
                keys.append(rng.choice(atoms))
        rng.shuffle(keys)
        recipe = ['dict', [[k, ['int', j]] for j, k in enumerate(keys)]]
        if rng.random() < 0.3:
            recipe = ['list', [recipe, ['dict', [[['tuple', [recipe[1][0][0], ['int', 0]]], ['none']], [['tuple', [recipe[1][-1][0], ['int', -1]]], ['none']]]]]]
        cfgs = [{'width': rng.choice([10, 40, 79, 200]), 'ribbon_width': rng.choice([20, 71, 200]), 'indent': rng.choice([2, 4]), 'sort_dict_keys': True},
                {'width': 79, 'ribbon_width': 71, 'indent': 4, 'sort_dict_keys': False}]
        run_case(sh, recipe, cfgs, 'sorting')
        sh.counters['key-sorting cases'] += 1
    # (e) big containers: sizes around the round numbers where a bulk / chunked code path would plausibly start (max_seq_len=None: nothing is cut)
    sizes = [49, 50, 51, 100, 127, 128, 129, 255, 256, 257, 999, 1000, 1001, 1024, 2000] if quick else list(range(45, 60)) + list(range(95, 135)) + [255, 256, 257, 511, 512, 513, 999, 1000, 1001, 1023, 1024, 1025, 2000, 4096, 5000, 10000]
    for n_el in sizes:
        for kind in ('list', 'tuple', 'set', 'frozenset', 'dict', 'dict-of-str', 'nested', 'same-kind'):
            idx += 1
            if not sh.mine(idx):
                continue
            rng = V.rng_for('c01e', sh.seed, n_el, kind)
            def leaf(j):
                return rng.choice([['int', j], ['str', 'k%d' % j], ['float', repr(j + 0.5)], ['bytes', 'b%d' % j], ['tuple', [['int', j], ['str', 'x']]]])
            if kind == 'same-kind':
                # every element of the same exact type (a homogeneous series is what a per-type bulk path would look for), special members included
                pool = rng.choice([
                    [['float', 'inf'], ['float', '-inf'], ['float', 'nan'], ['float', '-0.0'], ['float', '1e+300'], ['float', '2.5']],
                    [['int', 0], ['int', -1], ['int', 10 ** 20], ['float', 'nan'], ['float', '0.5'], ['int', 7]],
                    [['int', 3], ['int', -10 ** 30], ['int', 0]],
                    [['bool', True], ['bool', False]],
                    [['none']],
                    [['str', ''], ['str', "it's"], ['str', 'a"b'], ['str', 'x\\y'], ['str', 'é\n']],
                    [['bytes', ''], ['bytes', "q'"], ['bytes', 'ÿ\x00']],
                    [['tuple', []], ['tuple', [['int', 1]]], ['tuple', [['float', 'nan'], ['str', '']]]],
                    [['ellipsis'], ['none'], ['bool', True]],
                ])
                els = [pool[(j * 7 + j // 3) % len(pool)] if j % 11 else pool[0] for j in range(n_el)]
                recipe = [rng.choice(['list', 'tuple', 'list']), els]
                if rng.random() < 0.3:
                    recipe = ['dict', [[['str', 'series'], recipe]]]
            elif kind in ('list', 'tuple', 'set', 'frozenset'):
                recipe = [kind, [leaf(j) for j in range(n_el)]]
            elif kind == 'dict':
                recipe = ['dict', [[leaf(j), leaf(j + n_el)] for j in range(n_el)]]
            elif kind == 'dict-of-str':
                recipe = ['dict', [[['str', 'key%05d' % ((j * 7919) % n_el)], ['int', j]] for j in range(n_el)]]
            else:
                recipe = ['list', [['int', 0], ['dict', [[['str', 'rows'], ['list', [['tuple', [['int', j], ['str', 'r']]] for j in range(n_el)]]]]]]]
            cfgs = [{'width': 79, 'ribbon_width': 71, 'indent': 4, 'sort_dict_keys': kind == 'dict-of-str', 'max_seq_len': None},
                    {'width': rng.choice([20, 200, 10 ** 5]), 'ribbon_width': rng.choice([20, 150, 10 ** 5]), 'indent': rng.choice([1, 2, 8]), 'sort_dict_keys': False, 'max_seq_len': n_el}]
            run_case(sh, recipe, cfgs, 'big-%d' % n_el)
            sh.counters['big containers (45 .. 10000 elements)'] += 1
    for k, v in M.COUNTS.items():
        sh.counters['contract calls: ' + k] += v


def finalize(m):
    for name in ('contract calls: escape_str_for_quote', 'contract calls: str_to_lines', 'multi-line outputs', 'one-line outputs'):
        if not m.counters.get(name):
            m.inconclusive.append('monitor never reached: ' + name)


def replay(wit):
    M.install_warning_recorder()
    M.install_string_contracts()
    from ..runner import Shard
    sh = Shard('replay', 0, 0, 1)
    case = wit['case']
    value = V.build(case['recipe'], V.BuildEnv(share={}) if str(case.get('origin', '')).endswith('-aliased') else None)
    print('value  :', repr(value)[:500])
    print('config :', case['cfg'])
    text = check_one(sh, case['recipe'], value, case['cfg'], 'replay')
    print('output :', repr(text)[:800])
    for v in sh.violations:
        print('VIOLATED', v['key'], v['what'][:500])
    if not sh.violations:
        print('holds on this case')
    return not sh.violations

LEVEL = 'exploration'
TECHNIQUE = 'runtime oracle: eval round-trip against a canonical-form reference over bounded-exhaustive + random value trees, with contracts on the string helpers'
LEVEL_TEXT = ('Every generated (value, configuration) is printed by the real pformat and the output is evaluated and compared, type by type, '
              'with the canonical form of the input; all trees up to 3 (thorough 4) nodes over an adversarial leaf alphabet are covered '
              'exhaustively, larger ones randomly (a fifth of them with the same container object at two places), plus key-sorting families and big containers of 45 .. 10000 elements incl. homogeneous series with inf / nan / -0.0. Held-on-what-was-observed, not a proof.')
LEVEL_NOTE = 'Trusts CPython eval/ast and the canonicaliser in vlib/values.py; configurations are sampled (boundary widths L-1..L+1 always included).'
ANCHORS = ['prettyprinter.pretty_bracketable_iterable', 'prettyprinter.pretty_dict', 'prettyprinter.pretty_frozenset', 'prettyprinter.pretty_float', 'prettyprinter.pretty_str', 'prettyprinter.str_to_lines', 'prettyprinter.escape_str_for_quote', 'prettyprinter._AlwaysSortable.__lt__', 'layout.best_layout', 'render.default_render_to_stream']
