"""C13 - cycles are cut exactly at back-references; shared substructure prints in full.

(a) outcome oracle: a reference DFS over the same live objects (path stack of ids, printers' iteration order) renders the expected
    text with '<Recursion on T with id=N>' exactly at back-edges; compared with the real output modulo whitespace.
(b) trace monitor: start_visit / end_visit / is_visited of the real PrettyContext are logged; an offline checker asserts stack
    discipline, is_visited == (id on the open stack), a fresh empty visited set at the first event of every top-level call and an
    empty stack when the call returns ("no residue" observed directly). An event budget bounds runaway recursion (termination).
(c) re-print: the value, another graph, and the value again - all outputs must equal their first-call outputs.
"""
import itertools

import prettyprinter

from .. import monitors as M
from .. import values as V

RULE = ('all rooted directed multigraphs with <= 3 nodes (thorough 4) of kind list / dict / tuple-holding-a-list, <= 3 (thorough 4) ordered out-edges in total, every node reachable; '
        'random graphs up to 12 nodes with shared acyclic sub-structures (frozensets, tuples, interned atoms); a case is (graph, width); '
        'non-trivial = the graph has a back-edge or a node with in-degree > 1 (cycle or sharing)')
ASSUMPTIONS = ['ids of live objects are stable during a call', 'the reference renderer covers list/dict/tuple/set/frozenset/int/str only']
KINDS = ['list', 'dict', 'tup']


class EventBudget(M.MonitorAbort):
    pass


def make_graph(kinds, edges):
    """kinds: tuple of node kinds; edges: tuple of (src, dst) in order. Returns list of node objects (node 0 is the root)."""
    holders, nodes = [], []
    for i, k in enumerate(kinds):
        if k == 'list':
            o = [i]
            holders.append(o)
            nodes.append(o)
        elif k == 'dict':
            o = {'id': i}
            holders.append(o)
            nodes.append(o)
        else:
            inner = [i]
            holders.append(inner)
            nodes.append((inner,))
    cnt = [0] * len(kinds)
    for s, d in edges:
        h = holders[s]
        if isinstance(h, dict):
            h['e%d' % cnt[s]] = nodes[d]
        else:
            h.append(nodes[d])
        cnt[s] += 1
    return nodes


class TooBig(Exception):
    """shared substructure legitimately prints in full every time: the expansion of a dense DAG can be huge - such graphs are skipped"""


def reference(obj, path, stats):
    if isinstance(obj, (int, str)):
        return repr(obj)
    if id(obj) in path:
        stats['markers'] += 1
        return '<Recursion on %s with id=%d>' % (type(obj).__name__, id(obj))
    path.add(id(obj))
    stats['containers'] += 1
    if stats['containers'] > 20000:
        raise TooBig()
    try:
        if isinstance(obj, list):
            return '[' + ','.join(reference(c, path, stats) for c in obj) + ']'
        if isinstance(obj, tuple):
            return '(' + ','.join(reference(c, path, stats) for c in obj) + (',' if len(obj) == 1 else '') + ')'
        if isinstance(obj, dict):
            return '{' + ','.join(reference(k, path, stats) + ':' + reference(v, path, stats) for k, v in obj.items()) + '}'
        if isinstance(obj, frozenset):
            if not obj:
                return 'frozenset()'
            return 'frozenset([' + ','.join(reference(c, path, stats) for c in list(obj)) + '])'
        if isinstance(obj, set):
            if not obj:
                return 'set()'
            return '{' + ','.join(reference(c, path, stats) for c in obj) + '}'
        raise TypeError(type(obj))
    finally:
        path.discard(id(obj))


def squeeze(s):
    return ''.join(s.split())


class _Aborts:
    """its printer returns an invalid value: pformat raises ValueError half-way through a print"""


@prettyprinter.register_pretty(_Aborts)
def _pretty_aborts(v, ctx):
    return None


def abort_probe(sh, root, text, width, case):
    """a print that RAISED must leave no residue either: the same aborting call raises again (instead of printing a recursion
    marker for an object left in the visited set), and the graph prints as before"""
    lst = _Aborts()          # at top level the invalid return value is reported with ValueError (nested it may surface as a fallback warning)
    for attempt in (1, 2, 3):
        try:
            out = prettyprinter.pformat(lst, width=width)
        except ValueError:
            continue
        except Exception as e:
            sh.violation('abort-probe-raised', repr(e), case)
            return
        sh.violation('residue-after-aborted-print', 'attempt %d of a print whose printer returns an invalid value returned %r instead of raising ValueError' % (attempt, out[:200]), case)
        return
    M.take_warnings()
    after, _ = M.pp(root, width=width)
    if after != text:
        sh.violation('residue-after-aborted-print', 'after an aborted print the value prints as %r instead of %r' % (after[:200], text[:200]), case)
        return
    sh.counters['aborted prints followed by identical re-prints'] += 1


TR = M.VisitedTracer()


def traced_print(value, width, budget):
    TR.reset()
    TR.budget = budget
    return M.pp(value, width=width)


def install_tracer():
    if TR.installed:
        return
    TR.install()
    # event budget + visited-set size at every event (first event of a call must see an empty set)
    C = M.ppm.PrettyContext
    inner_is = C.is_visited
    TR.sizes = []
    TR.budget = 10 ** 9

    def is_visited(ctx, value):
        if not TR.log:
            TR.sizes.append(len(ctx.visited))
        if len(TR.log) > TR.budget:
            raise EventBudget('more than %d visited-set events in one call' % TR.budget)
        return inner_is(ctx, value)

    C.is_visited = is_visited


def check_graph(sh, root, desc, width, n_objects, other=None):
    case = {'graph': desc, 'width': width}
    stats = {'markers': 0, 'containers': 0}
    try:
        want = reference(root, set(), stats)
    except TooBig:
        sh.counters['graphs skipped: expansion larger than 20000 containers'] += 1
        return None
    budget = 60 * (stats['containers'] + n_objects + 20) * 3
    TR.sizes = []
    try:
        text, ws = traced_print(root, width, budget)
    except EventBudget as e:
        sh.violation('runaway-recursion', str(e), case)
        return None
    except M.MonitorAbort as e:
        sh.violation('monitor-abort', str(e), case)
        return None
    except Exception as e:
        sh.violation('pformat-raised', repr(e), case)
        return None
    if ws:
        sh.violation('warning', ws[0][1][-300:], case)
        return None
    ok, msg, st = TR.check()
    if not ok:
        sh.violation('visited-trace', msg, case)
        return None
    if TR.sizes and TR.sizes[0] != 0:
        sh.violation('visited-set-not-fresh', 'the visited set held %d ids at the first event of a top-level call' % TR.sizes[0], case)
        return None
    sh.counters['visited-set events checked'] += st.get('events', 0)
    sh.counters['is_visited answers True (markers) observed'] += st.get('is_visited_true', 0)
    if squeeze(text) != squeeze(want):
        n_got = text.count('<Recursion on')
        key = 'markers-missing' if n_got < stats['markers'] else ('markers-spurious' if n_got > stats['markers'] else 'marker-misplaced-or-text-differs')
        sh.violation(key, 'output %r, reference DFS expects %r' % (text[:400], want[:400]), case)
        return None
    sh.counters['outputs equal to the reference DFS'] += 1
    sh.counters['recursion markers verified'] += stats['markers']
    # (c) re-print: same value again, another value in between
    if other is not None:
        o1, _ = M.pp(other, width=width)
    again, ws2 = traced_print(root, width, budget)
    ok2, msg2, _ = TR.check()
    if again != text or ws2 or not ok2:
        sh.violation('reprint-differs', 'second print of the same value differs: %r vs %r %s' % (again[:300], text[:300], msg2), case)
        return None
    if other is not None:
        o2, _ = M.pp(other, width=width)
        if o1 != o2:
            sh.violation('reprint-differs', 'another value printed before and after differs: %r vs %r' % (o1[:300], o2[:300]), case)
            return None
    sh.counters['re-prints verified'] += 1
    if other is not None:
        abort_probe(sh, root, text, width, case)
    return stats


# ---------------------------------------------------------------- cycles through other container kinds (markers-only oracle)
import collections as _c
import re as _re
import types as _t

_NTL = _c.namedtuple('NTL', 'items tag')


class _UObj:
    def __init__(self):
        self.args, self.kwargs = [], {}


@prettyprinter.register_pretty(_UObj)
def _pretty_uobj(v, ctx):
    # passes data down to nested printers with the documented ctx.assoc(): the derived context must keep the cycle bookkeeping
    ctx = ctx.assoc('verif_marker', v.args[0] if v.args else None)
    return prettyprinter.pretty_call_alt(ctx, _UObj, args=tuple(v.args), kwargs=list(v.kwargs.items()))


class _DSub(dict):
    pass


class _PObj:
    """printed by a printer registered through a PREDICATE (dispatched from the base printer)"""

    def __init__(self):
        self.items = []


@prettyprinter.register_pretty(predicate=lambda v: type(v) is _PObj)
def _pretty_pobj(v, ctx):
    return prettyprinter.pretty_call_alt(ctx, _PObj, args=tuple(v.items))


class _BNBase:
    """printer registered BY NAME for this base class; only instances of the SUBCLASS are ever printed, so the pending registration is always
    resolved through a supertype"""

    def __init__(self):
        self.items = []


class _BNSub(_BNBase):
    pass


@prettyprinter.register_pretty(__name__ + '._BNBase')
def _pretty_bnbase(v, ctx):
    return prettyprinter.pretty_call_alt(ctx, type(v), args=tuple(v.items))


import dataclasses as _dcs


@_dcs.dataclass(eq=False)
class _DCNode:
    tag: int
    children: list = _dcs.field(default_factory=list)


prettyprinter.install_extras(['dataclasses'])


class _LSub(list):
    pass


class _Fails:
    """its registered printer raises: the value is shown by repr (C14 judges the containment); C13 cares that a SHARED instance is shown in full at every
    occurrence - it is never 'still being printed' when it is reached again"""

    def __init__(self, i):
        self.i = i

    def __repr__(self):
        return 'FAILS%dX' % self.i


@prettyprinter.register_pretty(_Fails)
def _pretty_fails(v, ctx):
    raise RuntimeError('printer of _Fails fails')


_FAIL_OCC = []
EXOTIC = ['bnsub', 'bnsub', 'fails', 'odict', 'ddict', 'deque', 'chainmap', 'ns', 'uobj', 'dsub', 'lsub', 'ntlist', 'exc', 'list', 'dict', 'pobj', 'dcnode', 'pobj', 'dcnode']


def make_exotic(kind, i):
    """returns (node object, add(child))"""
    if kind == 'bnsub':
        o = _BNSub()
        o.items.append(i)
        return o, o.items.append
    if kind == 'fails':
        return _Fails(i), lambda ch: None
    if kind == 'odict':
        o = _c.OrderedDict(id=i)
        return o, lambda ch, n=[0]: (o.__setitem__('e%d' % n[0], ch), n.__setitem__(0, n[0] + 1))
    if kind == 'ddict':
        o = _c.defaultdict(list, id=i)
        return o, lambda ch, n=[0]: (o.__setitem__('e%d' % n[0], ch), n.__setitem__(0, n[0] + 1))
    if kind == 'deque':
        o = _c.deque([i])
        return o, o.append
    if kind == 'chainmap':
        m0 = {'id': i}
        o = _c.ChainMap(m0, {})
        return o, lambda ch, n=[0]: (m0.__setitem__('e%d' % n[0], ch), n.__setitem__(0, n[0] + 1))
    if kind == 'ns':
        o = _t.SimpleNamespace(id=i)
        return o, lambda ch, n=[0]: (setattr(o, 'e%d' % n[0], ch), n.__setitem__(0, n[0] + 1))
    if kind == 'uobj':
        o = _UObj()
        o.args.append(i)
        return o, lambda ch, n=[0]: (o.args.append(ch) if n[0] % 2 == 0 else o.kwargs.__setitem__('k%d' % n[0], ch), n.__setitem__(0, n[0] + 1))
    if kind == 'dsub':
        o = _DSub(id=i)
        return o, lambda ch, n=[0]: (o.__setitem__('e%d' % n[0], ch), n.__setitem__(0, n[0] + 1))
    if kind == 'lsub':
        o = _LSub([i])
        return o, o.append
    if kind == 'ntlist':
        inner = [i]
        return _NTL(inner, 'tag'), inner.append
    if kind == 'exc':
        inner = [i]
        return ValueError(inner, 'msg'), inner.append
    if kind == 'list':
        o = [i]
        return o, o.append
    if kind == 'pobj':
        o = _PObj()
        o.items.append(i)
        return o, o.items.append
    if kind == 'dcnode':
        o = _DCNode(i)
        return o, o.children.append
    o = {'id': i}
    return o, lambda ch, n=[0]: (o.__setitem__('e%d' % n[0], ch), n.__setitem__(0, n[0] + 1))


def exotic_children(o):
    """children in the order the bundled printers visit them (None: atom)"""
    if isinstance(o, (int, str, bytes, float)) or o is None or isinstance(o, type):
        return None
    if isinstance(o, _c.ChainMap):
        return list(o.maps)
    if isinstance(o, _c.defaultdict):
        out = [o.default_factory]
        for k, v in o.items():
            out += [k, v]
        return out
    if isinstance(o, dict):
        out = []
        for k, v in o.items():
            out += [k, v]
        return out
    if isinstance(o, _c.deque):
        return list(o)
    if isinstance(o, _t.SimpleNamespace):
        return [getattr(o, k) for k in sorted(vars(o))]
    if isinstance(o, _UObj):
        return list(o.args) + list(o.kwargs.values())
    if isinstance(o, (_PObj, _BNBase)):
        return list(o.items)
    if isinstance(o, _DCNode):
        return [o.tag] + ([o.children] if o.children != [] else [])
    if isinstance(o, BaseException):
        return list(o.args)
    if isinstance(o, (list, tuple)):
        return list(o)
    raise TypeError(type(o))


def reference_markers(o, path, out, budget):
    o = M.ppm.unwrap_comments(o)[0]
    if isinstance(o, _Fails):
        _FAIL_OCC.append(repr(o))
        return
    ch = exotic_children(o)
    if ch is None:
        return
    if id(o) in path:
        out.append((type(o).__name__, id(o)))
        return
    budget[0] -= 1
    if budget[0] < 0:
        raise TooBig()
    path.add(id(o))
    try:
        for c in ch:
            reference_markers(c, path, out, budget)
    finally:
        path.discard(id(o))


_MARK = _re.compile(r'<Recursion on (\w+) with id=(\d+)>')


COMMENT_TEXTS = ['note', 'a comment that is far too long to fit on the line beside the value it belongs to, at any of the widths used', 'two\nlines']


def rand_exotic_graph(rng):
    n = rng.randint(2, 5)
    nodes = [make_exotic(rng.choice(EXOTIC), i) for i in range(n)]
    edges = [(rng.randrange(d), d) for d in range(1, n)]
    for _ in range(rng.randint(1, n + 1)):
        edges.append((rng.randrange(n), rng.randrange(n)))
    rng.shuffle(edges)
    commented = rng.random() < 0.35
    for s_, d_ in edges:
        child = nodes[d_][0]
        if commented and rng.random() < 0.5:
            # the reference to the child carries a comment (a wrapper object around the very same container): cycles through commented dict
            # values / list elements must be cut at the same places
            child = (prettyprinter.comment if rng.random() < 0.7 else prettyprinter.trailing_comment)(child, rng.choice(COMMENT_TEXTS))
        nodes[s_][1](child)
    return [x[0] for x in nodes], edges


def check_exotic(sh, i):
    rng = V.rng_for('c13x', sh.seed, i)
    nodes, edges = rand_exotic_graph(rng)
    root = nodes[0]
    case = {'graph': {'exotic': i, 'seed': sh.seed}, 'width': 79}
    want = []
    budget_left = [4000]
    del _FAIL_OCC[:]
    try:
        reference_markers(root, set(), want, budget_left)
    except TooBig:
        sh.counters['graphs skipped: expansion larger than 20000 containers'] += 1
        return
    TR.sizes = []
    try:
        text, ws = traced_print(root, rng.choice([79, 30, 10 ** 6]), 60 * (len(want) + 4000 - budget_left[0] + 50))
    except M.MonitorAbort as e:
        sh.violation('runaway-recursion', str(e), case)
        return
    except Exception as e:
        sh.violation('pformat-raised', repr(e), case)
        return
    ws = [w for w in ws if '_pretty_fails' not in w[1] and 'does not support rendering trailing comments' not in w[1]]
    if ws:
        sh.violation('warning', ws[0][1][-300:], case)
        return
    ok, msg, st = TR.check()
    if not ok:
        sh.violation('visited-trace', msg, case)
        return
    shown = sorted(_re.findall(r'FAILS\d+X', text))
    if shown != sorted(_FAIL_OCC):
        sh.violation('shared-object-with-failing-printer-not-shown-in-full', 'occurrences shown %r, the reference DFS reaches %r; output %r' % (shown, sorted(_FAIL_OCC), text[:300]), case)
        return
    if len(_FAIL_OCC) > len(set(_FAIL_OCC)):
        sh.counters['shared objects with a failing printer shown in full each time'] += 1
    got = [(a, int(b)) for a, b in _MARK.findall(text)]
    if got != want:
        sh.violation('markers-differ-for-other-container-kinds', 'recursion markers %r, the reference DFS expects %r; kinds %s; output %r' % (
            got[:6], want[:6], [type(x).__name__ for x in nodes], text[:300]), case)
        return
    again, _ = M.pp(root, width=79)
    first, _ = M.pp(root, width=79)
    if again != first:
        sh.violation('reprint-differs', 'two prints of the same value differ', case)
        return
    sh.counters['graphs through other container kinds verified (marker sequence)'] += 1
    sh.counters['recursion markers verified'] += len(want)
    for x in nodes:
        sh.see('container kinds on cycles', type(x).__name__)


def graphs(max_nodes, max_edges):
    for n in range(1, max_nodes + 1):
        pairs = [(s, d) for s in range(n) for d in range(n)]
        for m in range(0, max_edges + 1):
            for edges in itertools.product(pairs, repeat=m):
                # every node reachable from the root
                reach, frontier = {0}, [0]
                while frontier:
                    x = frontier.pop()
                    for s, d in edges:
                        if s == x and d not in reach:
                            reach.add(d)
                            frontier.append(d)
                if len(reach) != n:
                    continue
                for kinds in itertools.product(KINDS, repeat=n):
                    yield kinds, edges


def rand_graph(rng):
    n = rng.randint(2, 12)
    atoms = [1, 'abc', (), 7, 'x', frozenset(), (1, 2), frozenset([1, 'abc']), ((), ())]
    kinds = [rng.choice(KINDS) for _ in range(n)]
    edges = []
    for _ in range(rng.randint(n - 1, 2 * n)):
        edges.append((rng.randrange(n), rng.randrange(n)))
    for d in range(1, n):           # make everything reachable
        edges.append((rng.randrange(d), d))
    rng.shuffle(edges)
    nodes = make_graph(kinds, edges)
    # sprinkle shared atoms / acyclic sharers
    shared = [rng.choice(atoms) for _ in range(3)]
    shared.append((shared[0], shared[0], frozenset([shared[1]]) if isinstance(shared[1], (int, str, tuple, frozenset)) else 0))
    for node in nodes:
        h = node[0] if isinstance(node, tuple) else node
        for _ in range(rng.randint(0, 3)):
            a = rng.choice(shared)
            if isinstance(h, dict):
                h['a%d' % len(h)] = a
            else:
                h.insert(rng.randint(1, len(h)), a)
    return kinds, edges, nodes


def has_cycle_or_sharing(kinds, edges):
    indeg = {}
    for s, d in edges:
        indeg[d] = indeg.get(d, 0) + 1
    return any(v > 1 for v in indeg.values()) or any(d == 0 for s, d in edges) or any(s == d for s, d in edges) or len(edges) >= len(kinds)


def run_shard(sh):
    M.install_warning_recorder()
    install_tracer()
    quick = sh.tier == 'quick'
    idx = 0
    other = make_graph(('dict', 'list'), ((0, 1), (1, 0), (0, 0)))[0]
    for kinds, edges in graphs(3 if quick else 4, 3 if quick else 4):
        idx += 1
        if not sh.mine(idx):
            continue
        if len(kinds) == 4 and idx % 5:
            continue
        nodes = make_graph(kinds, edges)
        width = (79, 20, 10 ** 6)[idx % 3]
        check_graph(sh, nodes[0], {'kinds': kinds, 'edges': edges}, width, len(nodes), other if idx % 7 == 0 else None)
        sh.case((kinds, edges, width), has_cycle_or_sharing(kinds, edges))
        sh.counters['exhaustive graphs'] += 1
        if idx % 9000 == 0:
            sh.sample({'kinds': kinds, 'edges': edges, 'output': prettyprinter.pformat(nodes[0])[:300]})
    for i in range(2000 if quick else 60000):
        idx += 1
        if not sh.mine(idx):
            continue
        rng = V.rng_for('c13r', sh.seed, i)
        kinds, edges, nodes = rand_graph(rng)
        check_graph(sh, nodes[0], {'random': i, 'seed': sh.seed}, rng.choice([79, 30, 10 ** 6]), len(nodes) * 4, other if i % 5 == 0 else None)
        sh.case(('r', sh.seed, i), True)
        sh.counters['random graphs'] += 1
        if i % 900 == 0:
            sh.sample({'random graph': i, 'output': prettyprinter.pformat(nodes[0])[:300]})
    for i in range(1500 if quick else 60000):
        idx += 1
        if not sh.mine(idx):
            continue
        check_exotic(sh, i)
        sh.case(('x', sh.seed, i), True)


def finalize(m):
    for name in ('outputs equal to the reference DFS', 'recursion markers verified', 'visited-set events checked', 're-prints verified', 'is_visited answers True (markers) observed', 'graphs through other container kinds verified (marker sequence)', 'aborted prints followed by identical re-prints',
                 'shared objects with a failing printer shown in full each time'):
        if not m.counters.get(name):
            m.inconclusive.append('monitor never reached: ' + name)


def replay(wit):
    M.install_warning_recorder()
    install_tracer()
    from ..runner import Shard
    sh = Shard('replay', 0, 0, 1)
    c = wit['case']
    g = c['graph']
    if 'exotic' in g:
        check_exotic(sh, g['exotic'])
        nodes, edges = rand_exotic_graph(V.rng_for('c13x', g['seed'], g['exotic']))
        print('node kinds:', [type(x).__name__ for x in nodes], 'edges', edges)
        print(prettyprinter.pformat(nodes[0]))
        for v in sh.violations:
            print('VIOLATED', v['key'], v['what'][:700])
        if not sh.violations:
            print('holds on this case')
        return not sh.violations
    if 'random' in g:
        kinds, edges, nodes = rand_graph(V.rng_for('c13r', g['seed'], g['random']))
    else:
        kinds, edges = tuple(g['kinds']), tuple(tuple(e) for e in g['edges'])
        nodes = make_graph(kinds, edges)
    print('graph:', kinds, edges)
    print('output:\n' + prettyprinter.pformat(nodes[0], width=c['width']))
    check_graph(sh, nodes[0], g, c['width'], len(nodes) * 4, make_graph(('dict', 'list'), ((0, 1), (1, 0), (0, 0)))[0])
    for v in sh.violations:
        print('VIOLATED', v['key'], v['what'][:700])
    if not sh.violations:
        print('holds on this case')
    return not sh.violations


LEVEL = 'exploration'
TECHNIQUE = 'runtime oracle (reference DFS on the live object graph) + offline trace checker over hooked visited-set events (stack discipline, fresh set, no residue) + re-print comparison'
LEVEL_TEXT = ('All rooted multigraphs up to 3 nodes / 3 ordered edges (thorough 4/4, sampled 1:5 at 4 nodes) over three container kinds, random graphs up to 12 nodes with shared acyclic parts, and graphs through fourteen other node kinds (stdlib containers, user types registered by class / by predicate / by name of their base class, dataclasses, a node whose printer fails; references optionally wrapped in comments) are printed; '
              'the recursion markers must be exactly the back-edges of a reference DFS, and every visited-set operation of the real context is logged and checked offline.')
LEVEL_NOTE = 'Termination is restated as an event budget per call; exact text oracle for list/dict/tuple graphs (+ set/frozenset/atoms as acyclic sharers), marker-sequence oracle for cycles through twelve other container kinds (OrderedDict, defaultdict, deque, ChainMap, SimpleNamespace, exceptions, namedtuples, subclasses, user types registered by class / by predicate, dataclasses); aborted-print probe for residue.'
ANCHORS = ['prettyprinter.PrettyContext.start_visit', 'prettyprinter.PrettyContext.end_visit', 'prettyprinter.PrettyContext.is_visited', 'prettyprinter._pretty_recursion', 'prettyprinter._run_pretty']
