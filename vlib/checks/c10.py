"""C10 - max_seq_len shows exactly the first N elements and says how many were dropped.

Oracle: reference truncation trunc(v, N) applied recursively on the live objects (iteration order of the object
that is printed; first N of the sorted keys when sort_dict_keys is on); eval(output) must equal it canonically.
The truncation notices are recognised on the word stream of consecutive COMMENT tokens (they are word-wrapped at
narrow widths): the sequence of (K, bracket depth) must equal the expected post-order sequence - exactly one
notice per over-long container, inside that container's brackets, K = len - N - and no other comment words.
max_seq_len=None: same text as a huge limit, no warning.
"""
import io
import tokenize

from .. import monitors as M
from .. import values as V

RULE = ('container trees with unique int/str leaves: all two-level shapes (outer kind x length 0..4 x position x inner kind x length 0..4) '
        'plus random three-level trees, each at N in 1..maxlen+1, None, 10**9, widths {1,20,79}, both sort settings; '
        'a case is (shape, N, width, sort); non-trivial = some container is longer than N (a notice must appear) or N is None')
ASSUMPTIONS = ['tokenize reports comments and brackets faithfully', 'dict keys within one dict are of one sortable kind (the statement is silent on incomparable keys)']


class MyList(list):
    pass


class MyDict(dict):
    pass


class MySet(set):
    pass


import collections as _col
NTH = _col.namedtuple('NTH', 'a b')
CLASSES = {'MyList': MyList, 'MyDict': MyDict, 'MySet': MySet, 'NTH': NTH, 'defaultdict': _col.defaultdict, 'Counter': _col.Counter, 'deque': _col.deque}
ENV = None
NS = {'vlib': __import__('vlib'), 'collections': _col}
KINDS = ['list', 'tuple', 'set', 'frozenset', 'dict', 'MyList', 'MyDict', 'MySet', 'NTH', 'DDICT', 'COUNTER', 'DEQUE']
HASHABLE_INNER = ['tuple', 'frozenset']


class Leafs:
    def __init__(self, strs=False):
        self.n = 1000
        self.strs = strs

    def next(self):
        self.n += 1
        return ['str', 's%d' % self.n] if self.strs else ['int', self.n]


def mk(kind, children, leafs):
    """children: list of recipes. dict kinds pair each child (as value) with a fresh key, in non-sorted insertion order."""
    if kind in ('list', 'tuple', 'set', 'frozenset'):
        return [kind, children]
    if kind == 'NTH':        # namedtuple: itself never truncated, its field values are
        ch = (children + [leafs.next(), leafs.next()])[:2]
        return ['call', 'NTH', [], [['a', ch[0]], ['b', ch[1]]]]
    if kind == 'DDICT':      # defaultdict(None, {...}): the dict argument is a dict at a nested level
        keys = [leafs.next() for _ in children]
        return ['call', 'defaultdict', [['none'], ['dict', [[k, c] for k, c in zip(keys, children)]]], []]
    if kind == 'DEQUE':      # deque([...]): the list argument is a list at a nested level
        return ['call', 'deque', [['list', children]], []]
    if kind == 'COUNTER':    # Counter({...}): a dict subclass printed as a call around the dict of its most_common() order; counts distinct, so that order is fixed
        keys = [leafs.next() for _ in range(len(children) + 2)]
        return ['call', 'Counter', [['dict', [[k, ['int', 3 * (len(keys) - j)]] for j, k in enumerate(keys)]]], []]
    if kind == 'MyList':
        return ['sub', 'MyList', ['list', children]]
    if kind == 'MySet':
        return ['sub', 'MySet', ['set', children]]
    keys = [leafs.next() for _ in children]
    keys = keys[1::2] + keys[0::2][::-1]          # insertion order differs from sorted order
    pairs = [[k, c] for k, c in zip(keys, children)]
    if kind == 'MyDict':
        return ['sub', 'MyDict', ['dict', pairs]]
    return ['dict', pairs]


def shapes_two_level():
    for strs in (False, True):
        for k1 in KINDS:
            for n1 in range(0, 5):
                if n1 == 0:
                    lf = Leafs(strs)
                    yield mk(k1, [], lf)
                    continue
                # no inner container
                lf = Leafs(strs)
                yield mk(k1, [lf.next() for _ in range(n1)], lf)
                for pos in range(n1):
                    inner_kinds = HASHABLE_INNER if k1 in ('set', 'frozenset', 'MySet') else KINDS
                    for k2 in inner_kinds:
                        for n2 in range(0, 5):
                            lf = Leafs(strs)
                            ch = []
                            for i in range(n1):
                                if i == pos:
                                    ch.append(mk(k2, [lf.next() for _ in range(n2)], lf))
                                else:
                                    ch.append(lf.next())
                            yield mk(k1, ch, lf)
            # tuple as dict key
            if k1 in ('dict', 'MyDict'):
                for n2 in range(0, 5):
                    lf = Leafs(strs)
                    key = ['tuple', [lf.next() for _ in range(n2)]]
                    other = ['tuple', [lf.next()]]
                    body = ['dict', [[other, lf.next()], [key, lf.next()], [['tuple', [lf.next(), lf.next()]], lf.next()]]]
                    yield body if k1 == 'dict' else ['sub', 'MyDict', body]


def rand_shape(rng, depth, lf, hashable_only=False):
    if depth == 0 or rng.random() < 0.35:
        return lf.next()
    kinds = HASHABLE_INNER if hashable_only else KINDS
    k = rng.choice(kinds)
    n = rng.randint(0, 4)
    ch = [rand_shape(rng, depth - 1, lf, hashable_only or k in ('set', 'frozenset', 'MySet')) for _ in range(n)]
    return mk(k, ch, lf)


def maxlen(v):
    m = 0
    if isinstance(v, NTH):
        return max(maxlen(v.a), maxlen(v.b))
    if isinstance(v, dict):
        m = len(v)
        for k, x in v.items():
            m = max(m, maxlen(k), maxlen(x))
    elif isinstance(v, (list, tuple, set, frozenset, _col.deque)):
        m = len(v)
        for x in v:
            m = max(m, maxlen(x))
    return m


def brackets_of(v):
    t = type(v)
    if t in (list, tuple, set, dict):
        return 1
    return 2   # frozenset([...]), Subclass([...]) / Subclass({...}), defaultdict(None, {...})


def reference(v, N, sort, depth, notices):
    """Returns the truncated value; appends (K, depth) of the expected notices in output order."""
    t = type(v)
    if isinstance(v, NTH):
        return NTH(reference(v.a, N, sort, depth + 1, notices), reference(v.b, N, sort, depth + 1, notices))
    if isinstance(v, _col.defaultdict):
        inner = reference(dict(v), N, sort, depth + 1, notices)
        return _col.defaultdict(v.default_factory, inner)
    if isinstance(v, _col.Counter):
        inner = reference(dict(v.most_common()), N, sort, depth + 1, notices)
        return _col.Counter(inner)
    if isinstance(v, _col.deque):
        return _col.deque(reference(list(v), N, sort, depth + 1, notices), v.maxlen)
    if isinstance(v, dict):
        keys = list(v.keys())
        if sort:
            keys = sorted(keys)
        d = depth + brackets_of(v)
        out = {}
        for k in keys[:N]:
            out[reference(k, N, sort, d, notices)] = reference(v[k], N, sort, d, notices)
        if len(v) > N:
            notices.append((len(v) - N, d))
        return out if t is dict else t(out)
    if isinstance(v, (list, tuple, set, frozenset)):
        d = depth + brackets_of(v)
        items = list(v)          # iteration order of the live object = what the printer iterates
        kept = [reference(x, N, sort, d, notices) for x in items[:N]]
        if len(v) > N:
            notices.append((len(v) - N, d))
        return t(kept)
    return v


def observed_notices(text):
    """[(words..., depth)] for every run of consecutive COMMENT tokens; depth = open brackets at that point."""
    runs, cur, depth = [], None, 0
    for tok in tokenize.generate_tokens(io.StringIO('(' + text + '\n)').readline):
        if tok.type == tokenize.COMMENT:
            if cur is None:
                cur = [[], depth]
                runs.append(cur)
            cur[0].extend(tok.string[1:].split())
        elif tok.type in (tokenize.NL, tokenize.NEWLINE, tokenize.INDENT, tokenize.DEDENT):
            continue
        else:
            cur = None
            if tok.type == tokenize.OP:
                if tok.string in '([{':
                    depth += 1
                elif tok.string in ')]}':
                    depth -= 1
    return runs


def check_one(sh, recipe, N, width, sort):
    case = {'recipe': recipe, 'max_seq_len': N, 'width': width, 'sort_dict_keys': sort}
    value = V.build(recipe, ENVB)
    cfg = {'width': width, 'max_seq_len': N, 'sort_dict_keys': sort}
    try:
        text, ws = M.pp(value, **cfg)
    except M.MonitorAbort as e:
        sh.violation(getattr(e, 'key', 'monitor-abort'), str(e), case)
        return
    except Exception as e:
        sh.violation('pformat-raised', repr(e), case)
        return
    ml = maxlen(value)
    if N is None:
        sh.counters['prints with max_seq_len=None'] += 1
        if ws:
            sh.violation('none-warns', 'max_seq_len=None: warning %s' % ws[0][1][:200], case)
            return
        big, ws2 = M.pp(value, width=width, max_seq_len=10 ** 9, sort_dict_keys=sort)
        if text != big:
            sh.violation('none-differs-from-large-limit', 'max_seq_len=None output %r differs from limit 10**9 output %r' % (text[:200], big[:200]), case)
        effN = 10 ** 9
    else:
        effN = N
        if ws:
            sh.violation('warning', ws[0][1][:200], case)
            return
    notices = []
    ref = reference(value, effN, sort, 1, notices)
    try:
        got = V.evaluate(text, NS)
    except Exception as e:
        sh.violation('eval-error', 'output does not evaluate: %r; %r' % (e, text[:300]), case)
        return
    if V.canon(got) != V.canon(ref):
        sh.violation('wrong-elements', 'evaluates to %r, expected the truncation %r; output=%r' % (got, ref, text[:300]), case)
        return
    runs = observed_notices(text)
    obs = []
    for words, depth in runs:
        if len(words) == 4 and words[0] == '...and' and words[2] == 'more' and words[3] == 'elements' and words[1].isdigit():
            obs.append((int(words[1]), depth))
        else:
            sh.violation('spurious-comment', 'unexpected comment words %r; output=%r' % (words, text[:300]), case)
            return
    if obs != notices:
        key = 'notice-wrong'
        if len(obs) > len(notices):
            key = 'notice-spurious'
        elif len(obs) < len(notices):
            key = 'notice-missing'
        elif [k for k, _ in obs] != [k for k, _ in notices]:
            key = 'notice-count-wrong'
        else:
            key = 'notice-misplaced'
        sh.violation(key, 'notices (K, bracket depth) %r, expected %r; output=%r' % (obs, notices, text[:400]), case)
        return
    sh.counters['notices verified'] += len(obs)
    if notices:
        sh.counters['prints with truncation'] += 1
        if len(notices) > 1:
            sh.counters['prints with nested truncations'] += 1
        if any('\n#' in ln or ln.lstrip().startswith('#') for ln in text.split('\n')) and width == 1:
            sh.counters['word-wrapped notices (width 1)'] += 1
    else:
        sh.counters['prints without truncation'] += 1
    return text


ENVB = V.BuildEnv(CLASSES)


# ------------------------------------------------------------ truncation together with comments / trailing comments
# comment texts are data: characters that mean something to str.format / % / string.Template must come out unchanged even where the package
# builds its own notice text next to them
FORMAT_CHARS = ['', '', '', '{}', '{0}', '{name}', '{', '}', '%s', '%d', '%(k)s', '%', '$x', '{{}}', '\\']
def rand_commented(rng, depth, lf, cnt):
    """ordered containers only (list / tuple / dict): the expected comment word sequence is then fully determined"""
    if depth == 0 or rng.random() < 0.35:
        r = lf.next()
    else:
        k = rng.choice(['list', 'tuple', 'dict', 'list'])
        n = rng.randint(0, 5)
        ch = [rand_commented(rng, depth - 1, lf, cnt) for _ in range(n)]
        if k == 'dict':
            r = ['dict', [[lf.next(), c] for c in ch]]
        else:
            r = [k, ch]
        if rng.random() < 0.3 and n:
            cnt[0] += 1
            r = ['tcomment', r, 'tc%d' % cnt[0] + rng.choice(FORMAT_CHARS)]
    if rng.random() < 0.3:
        cnt[0] += 1
        r = ['comment', r, 'cm%d' % cnt[0] + rng.choice(FORMAT_CHARS)]
    return r


def ref_commented(r, N, words):
    """returns the truncated plain value; appends the expected comment words in output order"""
    k = r[0]
    if k == 'comment':
        words.append(r[2])
        return ref_commented(r[1], N, words)
    tc = None
    if k == 'tcomment':
        tc = r[2]
        r = r[1]
        k = r[0]
    if k in ('list', 'tuple'):
        kept = [ref_commented(c, N, words) for c in r[1][:N]]
        out = kept if k == 'list' else tuple(kept)
        n = len(r[1])
    elif k == 'dict':
        out = {}
        for kk, vv in r[1][:N]:
            out[V.build(kk)] = ref_commented(vv, N, words)
        n = len(r[1])
    else:
        return V.build(r)
    if n > N:
        words.extend(['...and', str(n - N), 'more', 'elements' + ('.' if tc else '')])
    if tc and n:
        words.append(tc)
    return out


def check_commented(sh, i):
    rng = V.rng_for('c10c', sh.seed, i)
    cnt = [0]
    recipe = rand_commented(rng, 3, Leafs(rng.random() < 0.5), cnt)
    base = recipe
    while base[0] in ('comment', 'tcomment'):
        base = base[1]
    if base[0] not in ('list', 'tuple', 'dict') or not cnt[0]:
        return
    value = V.build(recipe, ENVB)
    for N in (1, 2, 3, 10 ** 9):
        width = rng.choice([1, 20, 79])
        case = {'commented_recipe': recipe, 'max_seq_len': N, 'width': width, 'i': i, 'seed': sh.seed}
        want_words = []
        ref = ref_commented(recipe, N, want_words)
        try:
            text, ws = M.pp(value, width=width, max_seq_len=N)
        except Exception as e:
            sh.violation('pformat-raised-with-comments', repr(e), case)
            return
        if ws:
            sh.violation('warning-with-comments', ws[0][1][:200], case)
            return
        try:
            got = V.evaluate(text, NS)
        except Exception as e:
            sh.violation('eval-error-with-comments', '%r: %r' % (e, text[:300]), case)
            return
        if V.canon(got) != V.canon(ref):
            sh.violation('wrong-elements-with-comments', 'evaluates to %r, expected %r; output=%r' % (got, ref, text[:300]), case)
            return
        got_words = [w for run, _ in observed_notices(text) for w in run]
        if got_words != want_words:
            sh.violation('comment-words-with-truncation', 'comment words %r, expected %r; output=%r' % (got_words[:30], want_words[:30], text[:400]), case)
            return
        sh.counters['commented truncations verified'] += 1
        if any(w == '...and' for w in want_words) and any(w.startswith(('cm', 'tc')) for w in want_words):
            sh.counters['prints with both a truncation notice and user comments'] += 1
        if any(w == 'elements.' for w in want_words):
            sh.counters['notices joined with a trailing comment'] += 1
        sh.case(('commented', i, N, width), nontrivial=True)


def run_recipe(sh, recipe, idx, quick, origin):
    value = V.build(recipe, ENVB)
    ml = maxlen(value)
    rng = V.rng_for('c10', sh.seed, idx)
    Ns = list(range(1, ml + 2)) + [None, 10 ** 9]
    for N in Ns:
        combos = [(w, s) for w in (1, 20, 79) for s in (False, True)]
        if quick:
            combos = rng.sample(combos, 1 if origin == 'two-level' else 2)
        for w, s in combos:
            check_one(sh, recipe, N, w, s)
            sh.case((repr(recipe), N, w, s), nontrivial=(N is None or (N is not None and ml > N)))
    if idx % 700 == 0:
        sh.sample({'recipe': recipe, 'N': Ns, 'origin': origin})


def run_shard(sh):
    M.install_warning_recorder()
    M.install_string_contracts()
    quick = sh.tier == 'quick'
    idx = 0
    for recipe in shapes_two_level():
        idx += 1
        if sh.mine(idx):
            run_recipe(sh, recipe, idx, quick, 'two-level')
            sh.counters['two-level shapes'] += 1
    for i in range(1500 if quick else 40000):
        idx += 1
        if sh.mine(idx):
            rng = V.rng_for('c10r', sh.seed, i)
            lf = Leafs(rng.random() < 0.5)
            recipe = rand_shape(rng, 3, lf)
            if recipe[0] in ('int', 'str'):
                continue
            run_recipe(sh, recipe, idx, quick, 'random-3-level')
            sh.counters['random shapes'] += 1
    for i in range(2500 if quick else 80000):
        idx += 1
        if sh.mine(idx):
            check_commented(sh, i)
    # containers longer than the DEFAULT limit (1000), at top level and nested, with None / larger / equal limits
    big = 0
    for n in (1000, 1001, 1500, 3500, 12345):
        for holder in ('top', 'list', 'dictvalue', 'tuple-in-list', 'nt', 'set', 'dict'):
            # the dropped count K goes up to 12345 (counts of four and more digits, written as plain decimal integers)
            for N in ((None, 5000, n, n - 1, 1000) if n <= 1500 else (1000, 1, 2, n - 1000, n - 999)):
                big += 1
                if not sh.mine(big):
                    continue
                inner = ['set', [['int', j] for j in range(n)]] if holder == 'set' else ['list', [['int', j] for j in range(n)]]
                if holder == 'dict':
                    inner = ['dict', [[['int', j], ['int', -j]] for j in range(n)]]
                recipe = {'top': inner, 'dict': inner, 'set': ['list', [inner]], 'list': ['list', [['int', -1], inner]], 'dictvalue': ['dict', [[['str', 'k'], inner]]],
                          'tuple-in-list': ['list', [['tuple', [inner, ['int', -2]]]]], 'nt': ['call', 'NTH', [], [['a', inner], ['b', ['int', 0]]]]}[holder]
                check_one(sh, recipe, N, 79, False)
                sh.case(('big', n, holder, N), nontrivial=True)
                sh.counters['containers longer than the default limit'] += 1


def finalize(m):
    for name in ('notices verified', 'prints with truncation', 'prints with nested truncations', 'prints with max_seq_len=None',
                 'word-wrapped notices (width 1)', 'prints without truncation', 'commented truncations verified',
                 'prints with both a truncation notice and user comments', 'notices joined with a trailing comment', 'containers longer than the default limit'):
        if not m.counters.get(name):
            m.inconclusive.append('monitor never reached: ' + name)


def replay(wit):
    M.install_warning_recorder()
    from ..runner import Shard
    sh = Shard('replay', 0, 0, 1)
    c = wit['case']
    if 'commented_recipe' in c:
        sh.seed = c['seed']
        check_commented(sh, c['i'])
        import prettyprinter
        print(prettyprinter.pformat(V.build(c['commented_recipe'], ENVB), width=c['width'], max_seq_len=c['max_seq_len']))
        for v in sh.violations:
            print('VIOLATED', v['key'], v['what'][:600])
        if not sh.violations:
            print('holds on this case')
        return not sh.violations
    print('value :', repr(V.build(c['recipe'], ENVB))[:400], ' max_seq_len=%r width=%r sort=%r' % (c['max_seq_len'], c['width'], c['sort_dict_keys']))
    text = check_one(sh, c['recipe'], c['max_seq_len'], c['width'], c['sort_dict_keys'])
    print('output:', text)
    for v in sh.violations:
        print('VIOLATED', v['key'], v['what'][:600])
    if not sh.violations:
        print('holds on this case')
    return not sh.violations


LEVEL = 'exploration'
TECHNIQUE = 'runtime oracle: reference truncation + token-stream checker for the truncation notices, exhaustive two-level container shapes x all N'
LEVEL_TEXT = ('Every two-level container shape with lengths 0..4 (12 container kinds incl. subclasses, namedtuple / defaultdict / Counter / deque holders, both leaf kinds), random three-level trees, commented values and containers of 1000 .. 12345 elements are printed at every '
              'N from 1 to max length + 1, None and 10**9; the evaluated output must equal the reference truncation and the notices must match the expected '
              '(K, bracket depth) sequence exactly.')
LEVEL_NOTE = 'Lengths are bounded by 4 and depth by 3; widths {1,20,79}; in the quick tier width/sort are sampled per shape and N.'
ANCHORS = ['prettyprinter.pretty_bracketable_iterable', 'prettyprinter.pretty_dict', 'prettyprinter.pretty_frozenset', 'utils.take', 'prettyprinter.commentdoc']
