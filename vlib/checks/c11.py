"""C11 - depth cuts off exactly below the requested nesting level.

Oracle (AST prefix relation): the output for depth=d must be obtainable from the unlimited output by replacing
sub-expressions with placeholders: a simultaneous walk over both syntax trees with the nesting level k of every
node (a container display or a call consumes one level; a call hugging a sole list/dict/tuple display counts
with that display as one level - the rule the package documents). k < d: node intact; k >= d: placeholder of the
node's own type ([...], (...), {...}, T(...), int(...), str(...), ...). None/bool/Ellipsis have no placeholder and
empty list/tuple print as []/() at the cut: accepted either way. d > height: text identical to depth=None.
"""
import ast
import collections

from .. import monitors as M
from .. import values as V

RULE = ('all container trees with <= 5 (thorough 6) nodes over list/tuple/set/frozenset/dict with unique int/str leaves and dict keys of '
        'int, str, bytes and tuple kinds, plus random trees mixing OrderedDict, deque, namedtuple, defaultdict, Counter and container subclasses; '
        'each at d in 0..height+2 and None; a case is (tree, d, width); non-trivial = 0 < d <= height (something is cut and something is kept)')
ASSUMPTIONS = ['the unlimited output is correct (C01/C07/C08 judge it)', 'nesting is counted on the printed expression: hugged sole argument does not consume a level']

NT = collections.namedtuple('NT', 'a b')


class MyList(list):
    pass


class MyDict(dict):
    pass


class MyTuple(tuple):
    pass


class MySet(set):
    pass


CLASSES = {'MyList': MyList, 'MyDict': MyDict, 'MyTuple': MyTuple, 'MySet': MySet}
ENVB = V.BuildEnv(CLASSES)
NS = {'vlib': __import__('vlib'), 'collections': collections}
# (C11 compares syntax trees only; nothing is evaluated)


# ------------------------------------------------------------------ values
class Leafs:
    def __init__(self, alias=False):
        self.n = 1000
        # aliasing: with alias=True a finished container may be used again as a child elsewhere (the SAME object at another nesting level;
        # only finished containers are reused, so the value stays acyclic)
        self.alias = alias
        self.pool = []
        self.hpool = []

    def next(self, kind=None):
        self.n += 1
        kind = kind or ('int' if self.n % 2 else 'str')
        if kind == 'int':
            return self.n
        if kind == 'str':
            return 's%d' % self.n
        if kind == 'bytes':
            return b'b%d' % self.n
        if kind == 'tuple':
            return (self.n, 't%d' % self.n)
        if kind == 'float':
            return self.n + 0.5


KEYKINDS = ['str', 'int', 'tuple', 'bytes', 'float']


def shapes(n, hashable_only=False):
    """Shape terms: 'L' leaf or (kind, [children]) with exactly n nodes."""
    if n == 1:
        yield 'L'
        kinds = ['tuple', 'frozenset'] if hashable_only else ['list', 'tuple', 'set', 'frozenset', 'dict']
        for k in kinds:
            yield (k, [])
        return
    kinds = ['tuple', 'frozenset'] if hashable_only else ['list', 'tuple', 'set', 'frozenset', 'dict']
    for k in kinds:
        child_hash = hashable_only or k in ('set', 'frozenset')
        for parts in V.compositions(n - 1):
            yield from ((k, list(ch)) for ch in _product([list(shapes(p, child_hash)) for p in parts]))


def _product(lists):
    import itertools
    return itertools.product(*lists)


def realise(shape, lf, keyrot=[0]):
    if shape == 'L':
        return lf.next()
    k, ch = shape
    vals = [realise(c, lf) for c in ch]
    if k == 'list':
        return vals
    if k == 'tuple':
        return tuple(vals)
    if k == 'set':
        return set(vals)
    if k == 'frozenset':
        return frozenset(vals)
    if k == 'dict':
        d = {}
        for v in vals:
            keyrot[0] += 1
            d[lf.next(KEYKINDS[keyrot[0] % len(KEYKINDS)])] = v
        return d
    raise ValueError(k)


COMMENTS = [False]


def rand_value(rng, depth, lf, hashable_only=False):
    v = _rand_value(rng, depth, lf, hashable_only)
    if COMMENTS[0] and not hashable_only:
        import prettyprinter
        c = rng.random()
        if c < 0.3:
            return prettyprinter.comment(v, rng.choice(['note', 'a longer comment text that will not fit', 'two\nlines']))
        if c < 0.4 and type(v) in (list, tuple, dict, set) and len(v):
            return prettyprinter.trailing_comment(v, 'trailing')
    return v


import datetime as _dt
import enum as _enum
import pathlib as _pl
import uuid as _uuid


class Shade(_enum.Enum):
    DARK = 1


def stdlib_leaf(rng, n):
    """call-style standard-library values as leaves: at the cut they become T(...), above it they print in full.
    (Pure paths are left out: their printer passes its own context to the inner string instead of a nested one, so a path
    one level above the cut prints as Path('...') where every other call-style value prints T(str(...)) - harmless, noted in DESIGN.md.)"""
    return rng.choice([
        _dt.datetime(2000 + n % 50, 1 + n % 12, 1 + n % 28, n % 24, n % 60),
        _dt.date(2000 + n % 50, 1 + n % 12, 1 + n % 28),
        _dt.time(n % 24, n % 60, n % 60),
        _dt.timedelta(days=n % 300, seconds=n % 3600),
        _uuid.UUID(int=n),
        ValueError('e%d' % n, n),
        Shade.DARK,
    ])


def _rand_value(rng, depth, lf, hashable_only=False):
    if lf.alias:
        cands = lf.hpool if hashable_only else lf.pool
        if cands and rng.random() < 0.3:
            lf.reused = getattr(lf, 'reused', 0) + 1
            return rng.choice(cands)
    v = _make_value(rng, depth, lf, hashable_only)
    if lf.alias and isinstance(v, (list, tuple, set, frozenset, dict, collections.deque)) and len(v):
        lf.pool.append(v)
        if hashable_only:
            lf.hpool.append(v)
    return v


def _make_value(rng, depth, lf, hashable_only=False):
    if depth == 0 or rng.random() < 0.3:
        if rng.random() < 0.2:
            lf.n += 1
            return stdlib_leaf(rng, lf.n)
        return lf.next(rng.choice(['int', 'str', 'bytes', 'float']))
    if hashable_only:
        k = rng.choice(['tuple', 'frozenset', 'NT', 'MyTuple'])
    else:
        k = rng.choice(['list', 'tuple', 'set', 'frozenset', 'dict', 'OrderedDict', 'deque', 'dequemax', 'NT', 'defaultdict',
                        'Counter', 'MyList', 'MyDict', 'MyTuple', 'MySet', 'dict', 'list', 'exc', 'exc'])
    n = rng.randint(0, 3)
    child_hash = hashable_only or k in ('set', 'frozenset', 'MySet')
    ch = [rand_value(rng, depth - 1, lf, child_hash) for _ in range(n)]
    if k == 'list':
        return ch
    if k == 'tuple':
        return tuple(ch)
    if k == 'set':
        return set(ch)
    if k == 'frozenset':
        return frozenset(ch)
    if k in ('dict', 'MyDict', 'OrderedDict', 'defaultdict'):
        items = [(lf.next(rng.choice(KEYKINDS)) if rng.random() < 0.8 else rand_value(rng, 1, lf, True), v) for v in ch]
        if k == 'dict':
            return dict(items)
        if k == 'MyDict':
            return MyDict(items)
        if k == 'OrderedDict':
            return collections.OrderedDict(items)
        return collections.defaultdict(rng.choice([None, list, int]), items)
    if k == 'Counter':
        return collections.Counter({lf.next(rng.choice(['int', 'str'])): i + 1 for i in range(n)})
    if k == 'deque':
        return collections.deque(ch)
    if k == 'dequemax':
        return collections.deque(ch, maxlen=5)
    if k == 'NT':
        return NT(a=ch[0] if ch else lf.next(), b=ch[1] if len(ch) > 1 else lf.next())
    if k == 'exc':
        # an exception is printed as a call of its class with its args: one argument (hugged when it is a plain list / dict / tuple display,
        # a nesting level of its own when it is a namedtuple, a subclass instance or any other call) or several
        return rng.choice([KeyError, ValueError, LookupError])(*ch)
    if k == 'MyList':
        return MyList(ch)
    if k == 'MyTuple':
        return MyTuple(ch)
    if k == 'MySet':
        return MySet(ch)
    raise ValueError(k)


# ------------------------------------------------------------------ oracle
def is_ellipsis(n):
    return isinstance(n, ast.Constant) and n.value is Ellipsis


def dotted(n):
    if isinstance(n, ast.Name):
        return n.id
    if isinstance(n, ast.Attribute):
        b = dotted(n.value)
        return None if b is None else b + '.' + n.attr
    return None


def call_of(n, name):
    return isinstance(n, ast.Call) and dotted(n.func) == name and len(n.args) == 1 and not n.keywords and is_ellipsis(n.args[0])


def hugged(n):
    if not (isinstance(n, ast.Call) and len(n.args) == 1 and not n.keywords):
        return False
    if isinstance(n.args[0], (ast.List, ast.Dict, ast.Tuple)):
        return True
    # a set display is hugged only by the printer of set subclasses (it prints the elements itself); a call-style printer (exception, ...) hugs
    # list / dict / tuple only, a set argument is a nesting level of its own
    return isinstance(n.args[0], ast.Set) and (dotted(n.func) or '').endswith('MySet')


def is_placeholder_for(full, lim):
    """lim is the placeholder shape of full's own type (or an accepted equivalent)."""
    if isinstance(full, ast.Constant):
        v = full.value
        if v is None or v is True or v is False or v is Ellipsis:
            return ast.dump(full) == ast.dump(lim)
        return call_of(lim, type(v).__name__)
    if isinstance(full, (ast.Name, ast.Attribute)):
        return ast.dump(full) == ast.dump(lim)     # classes/functions have no placeholder form
    if isinstance(full, ast.UnaryOp) and isinstance(full.operand, ast.Constant):
        return call_of(lim, type(full.operand.value).__name__)
    if isinstance(full, ast.List):
        if not full.elts:
            return isinstance(lim, ast.List) and (not lim.elts or (len(lim.elts) == 1 and is_ellipsis(lim.elts[0])))
        return isinstance(lim, ast.List) and len(lim.elts) == 1 and is_ellipsis(lim.elts[0])
    if isinstance(full, ast.Tuple):
        if not full.elts:
            return (isinstance(lim, ast.Tuple) and not lim.elts) or is_ellipsis(lim)
        return is_ellipsis(lim)          # "(...)" parses as a parenthesised Ellipsis
    if isinstance(full, ast.Set):
        return call_of(lim, 'set')
    if isinstance(full, ast.Dict):
        return isinstance(lim, ast.Set) and len(lim.elts) == 1 and is_ellipsis(lim.elts[0])   # "{...}"
    if isinstance(full, ast.Call):
        name = dotted(full.func)
        if not (isinstance(lim, ast.Call) and dotted(lim.func) == name and not lim.keywords and len(lim.args) == 1):
            return False
        a = lim.args[0]
        return (is_ellipsis(a) or
                (isinstance(a, ast.List) and len(a.elts) == 1 and is_ellipsis(a.elts[0])) or
                (isinstance(a, ast.Set) and len(a.elts) == 1 and is_ellipsis(a.elts[0])))
    return False


class Mismatch(Exception):
    def __init__(self, kind, detail):
        super().__init__(detail)
        self.kind = kind


def children(n):
    """[(child, is_str_dict_key)] of a container node, or None for a leaf."""
    if isinstance(n, (ast.List, ast.Tuple, ast.Set)):
        return [(e, False) for e in n.elts]
    if isinstance(n, ast.Dict):
        out = []
        for k, v in zip(n.keys, n.values):
            out.append((k, isinstance(k, ast.Constant) and isinstance(k.value, (str, bytes))))
            out.append((v, False))
        return out
    if isinstance(n, ast.Call):
        if hugged(n):
            return children(n.args[0])
        return [(a, False) for a in n.args] + [(kw.value, False) for kw in n.keywords]
    return None


def same_head(a, b):
    if type(a) is not type(b):
        return False
    if isinstance(a, ast.Call):
        return (dotted(a.func) == dotted(b.func) and len(a.args) == len(b.args) and
                [k.arg for k in a.keywords] == [k.arg for k in b.keywords] and hugged(a) == hugged(b) and
                (not hugged(a) or type(a.args[0]) is type(b.args[0])))
    if isinstance(a, ast.Constant):
        return ast.dump(a) == ast.dump(b)
    if isinstance(a, (ast.UnaryOp, ast.Name, ast.Attribute)):
        return ast.dump(a) == ast.dump(b)
    return True


def walk(full, lim, k, d, stats, strkey=False, mism=None):
    if k >= d:
        if is_placeholder_for(full, lim):
            stats['cut'] += 1
            return
        if strkey and k == d and ast.dump(full) == ast.dump(lim):
            mism.append(('str-dict-key-at-cut', ast.unparse(full)))
            return
        raise Mismatch('not-cut', 'node %s at nesting %d >= depth %d is printed as %s' % (ast.unparse(full)[:80], k, d, ast.unparse(lim)[:80]))
    if not same_head(full, lim):
        raise Mismatch('changed-above-cut', 'node %s at nesting %d < depth %d is printed as %s' % (ast.unparse(full)[:80], k, d, ast.unparse(lim)[:80]))
    stats['kept'] += 1
    cf, cl = children(full), children(lim)
    if cf is None:
        return
    if len(cf) != len(cl):
        raise Mismatch('changed-above-cut', 'container %s has %d children instead of %d' % (ast.unparse(full)[:80], len(cl), len(cf)))
    # (both prints iterate the same live set object, so set displays list their elements in the same order)
    for (a, sk), (b, _) in zip(cf, cl):
        walk(a, b, k + 1, d, stats, sk, mism)


def height(n, k=0):
    ch = children(n)
    if ch is None:
        return k
    return max([height(c, k + 1) for c, _ in ch] + [k + 1])


def check_value(sh, value, desc, d, width):
    case = {'value': desc, 'depth': d, 'width': width}
    try:
        full, ws0 = M.pp(value, width=width, depth=None)
        lim, ws = M.pp(value, width=width, depth=d)
    except M.MonitorAbort as e:
        sh.violation(getattr(e, 'key', 'monitor-abort'), str(e), case)
        return None
    except Exception as e:
        sh.violation('pformat-raised', repr(e), case)
        return None
    if ws0 or ws:
        sh.violation('warning', (ws0 + ws)[0][1][:300], case)
        return None
    try:
        tf = ast.parse('(' + full + '\n)', mode='eval').body
        tl = ast.parse('(' + lim + '\n)', mode='eval').body
    except SyntaxError as e:
        sh.violation('not-parseable', '%r: %r' % (e, lim[:200]), case)
        return None
    h = height(tf)
    if d is None or d > h:
        if lim != full:
            sh.violation('deep-limit-differs-from-none', 'depth=%r > height %d but output differs from depth=None: %r vs %r' % (d, h, lim[:200], full[:200]), case)
        else:
            sh.counters['d > height or None: identical to unlimited'] += 1
        return h
    stats = collections.Counter()
    mism = []
    try:
        walk(tf, tl, 0, d, stats, False, mism)
    except Mismatch as e:
        sh.violation('depth-' + e.kind, '%s; depth=%d output=%r unlimited=%r' % (e, d, lim[:300], full[:300]), case)
        return h
    if mism:
        sh.violation('str-dict-key-at-cut', 'str/bytes dict key %s exactly at the cut level stays visible; output=%r' % (mism[0][1], lim[:200]), case)
    sh.counters['nodes verified cut'] += stats['cut']
    sh.counters['nodes verified kept'] += stats['kept']
    if stats['cut'] and stats['kept']:
        sh.counters['prints with both kept and cut nodes'] += 1
    return h


def describe(value):
    return repr(value)[:400]


def run_value(sh, value, recipe_desc, idx, quick):
    rng = V.rng_for('c11', sh.seed, idx)
    width = rng.choice([79, 79, 20, 5, 40, 30])
    h = check_value(sh, value, recipe_desc, None, width)
    if h is None:
        return
    for d in list(range(0, h + 3)):
        check_value(sh, value, recipe_desc, d, width)
        sh.case((recipe_desc['key'], d, width), nontrivial=(0 < d <= h))
    sh.case((recipe_desc['key'], None, width), nontrivial=False)


def run_shard(sh):
    M.install_warning_recorder()
    M.install_string_contracts()
    quick = sh.tier == 'quick'
    idx = 0
    N = 5 if quick else 6
    for n in range(1, N + 1):
        for shape in shapes(n):
            idx += 1
            if not sh.mine(idx):
                continue
            value = realise(shape, Leafs(), [idx])
            run_value(sh, value, {'kind': 'shape', 'shape': shape, 'keyrot': idx, 'key': repr((shape, idx % len(KEYKINDS)))}, idx, quick)
            sh.counters['exhaustive shapes'] += 1
            if idx % 4000 == 0:
                sh.sample({'shape': shape, 'value': describe(value)})
    for i in range(2500 if quick else 80000):
        idx += 1
        if not sh.mine(idx):
            continue
        rng = V.rng_for('c11r', sh.seed, i)
        COMMENTS[0] = (i % 3 == 2)
        lf = Leafs(alias=(i % 2 == 1))
        value = rand_value(rng, 4, lf)
        COMMENTS[0] = False
        if getattr(lf, 'reused', 0):
            sh.counters['random values with the same container object at several places'] += 1
        run_value(sh, value, {'kind': 'random', 'i': i, 'seed': sh.seed, 'key': repr(('r', sh.seed, i)), 'repr': describe(value) if i % 3 != 2 else '(commented value)'}, idx, quick)
        sh.counters['random values'] += 1
        if i % 3 == 2:
            sh.counters['random values carrying comments'] += 1
        if i % 900 == 0:
            sh.sample({'random': describe(value)})


def finalize(m):
    for name in ('nodes verified cut', 'nodes verified kept', 'prints with both kept and cut nodes', 'd > height or None: identical to unlimited'):
        if not m.counters.get(name):
            m.inconclusive.append('monitor never reached: ' + name)


def rebuild(desc):
    if desc['kind'] == 'shape':
        def fix(s):
            return 'L' if s == 'L' else (s[0], [fix(c) for c in s[1]])
        return realise(fix(desc['shape']), Leafs(), [desc['keyrot']])
    rng = V.rng_for('c11r', desc['seed'], desc['i'])
    COMMENTS[0] = (desc['i'] % 3 == 2)
    try:
        return rand_value(rng, 4, Leafs(alias=(desc['i'] % 2 == 1)))
    finally:
        COMMENTS[0] = False


def replay(wit):
    M.install_warning_recorder()
    from ..runner import Shard
    sh = Shard('replay', 0, 0, 1)
    c = wit['case']
    value = rebuild(c['value'])
    print('value :', repr(value)[:500], ' depth=%r width=%r' % (c['depth'], c['width']))
    check_value(sh, value, c['value'], c['depth'], c['width'])
    import prettyprinter
    print('output:', prettyprinter.pformat(value, width=c['width'], depth=c['depth']))
    for v in sh.violations:
        print('VIOLATED', v['key'], v['what'][:600])
    if not sh.violations:
        print('holds on this case')
    return not sh.violations


LEVEL = 'exploration'
TECHNIQUE = 'runtime oracle: AST prefix relation between depth-limited and unlimited output with per-node nesting levels, exhaustive small container shapes x all d'
LEVEL_TEXT = ('All container shapes up to 5 (thorough 6) nodes with unique leaves and every dict-key kind, plus random trees with stdlib call-style types, exceptions and subclasses (half of them re-using a finished container object at other nesting levels; a third carrying comments), '
              'are printed at every depth 0..height+2 and None; each node of the unlimited output is checked to be intact above the cut and a placeholder of its own type at or below it.')
LEVEL_NOTE = 'Nesting levels are derived from the unlimited output (assumed right, judged by C01/C07/C08); inf/nan and str/int subclass leaves are outside the generator.'
ANCHORS = ['prettyprinter.PrettyContext.nested_call', 'prettyprinter.pretty_call_alt', 'prettyprinter.pretty_bracketable_iterable', 'prettyprinter.pretty_dict', 'prettyprinter.pretty_int', 'prettyprinter.pretty_str']
