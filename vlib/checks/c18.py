"""C18 - all entry points and configuration layers agree.

Model: a dict of defaults updated by exactly the keys given to set_default_config; effective settings = explicit over model.
Reference text: pformat with ALL effective settings passed explicitly. Every entry point (pformat keyword/positional, pprint
keyword/positional/stdout, cpprint with color off, PrettyPrinter.pformat/pprint, pretty_repr) is compared with it byte for byte, after
random histories of set_default_config calls, each history in a forked child so the module-global defaults never leak.
Anchors against a reference that ignores its arguments: for each setting two explicit values must give different texts on a value
designed to be sensitive to it, and get_default_config() must equal the model after every step.
"""
import io
import itertools
import sys

from .. import monitors as M
from .. import values as V
from ..runner import fork_call

ENV = {'COLORFUL_DISABLE': '1'}
RULE = ('histories (length 0..5) of set_default_config over its accepted keys, then the cross product of {unset, v1, v2} for indent, width, depth, ribbon_width, max_seq_len, sort_dict_keys '
        '(quick: 120 seeded combinations per history and value; thorough: all 729) x values sensitive to every setting x entry points x end in {"\\n", "", "X"}; '
        'a case is (history, explicit settings, value, entry point); non-trivial = at least one setting is explicit or the history is non-empty')
ASSUMPTIONS = ['color is switched off through COLORFUL_DISABLE=1 (verified at the start of every worker: no escape byte in cpprint output)',
               'the reference pformat call receives every setting explicitly']

DOMAINS = {
    'indent': [1, 4],
    'width': [10, 79],
    'depth': [None, 1],
    'ribbon_width': [5, 71],
    'max_seq_len': [2, 1000],
    'sort_dict_keys': [True, False],
}
# wider domains, sampled on top of the 3^6 core product (falsy and boundary values of every setting)
WIDE = {
    'indent': [1, 2, 4, 8],
    'width': [1, 10, 30, 79, 200],
    'depth': [None, 0, 1, 2, 3, 50],
    'ribbon_width': [1, 5, 71, 300],
    'max_seq_len': [1, 2, 3, 1000, None],
    'sort_dict_keys': [True, False, 0, 1],
}
KEYS = ['indent', 'width', 'depth', 'ribbon_width', 'max_seq_len', 'sort_dict_keys']
SETTABLE = ['max_seq_len', 'width', 'ribbon_width', 'depth', 'sort_dict_keys']
UNSET = '<unset>'
INITIAL = {'indent': 4, 'width': 79, 'ribbon_width': 71, 'depth': None, 'max_seq_len': 1000, 'sort_dict_keys': False}


class Reg:
    def __init__(self, payload):
        self.payload = payload


class RegByName:
    """printer registered lazily by qualified name; repr() is the first entry point that ever sees an instance"""

    def __init__(self, payload):
        self.payload = payload


class RegSub(RegByName):
    pass


def values():
    import prettyprinter
    return [
        {'b': [1, 2, 3, 4, 5], 'a': {'nested': {'deep': [1, [2, [3]]]}}, 'c': 'lorem ipsum dolor ' * 3},
        [['alpha', 'beta', 'gamma'], {'z': 1, 'y': (1, 2, 3)}, 12345678901234567890],
        ('x' * 30, {3: 'c', 1: 'a', 2: 'b'}, [[[[1]]]]),
        Reg({'k2': [1, 2, 3], 'k1': 'v' * 20}),
        # comments whose lines end in (or consist of) whitespace: several whitespace fragments at a line end, where a renderer trims
        prettyprinter.comment({'k': [1, 2]}, 'first line of a docstring\n    \nlast line\n    '),
        [prettyprinter.comment(1, 'x  '), prettyprinter.trailing_comment([1, 2], 'tail \t '), prettyprinter.comment('s', ' '), prettyprinter.comment(2, 'a\n \t \nb')],
        {'text': 'ends in spaces   ' * 6, 'k': prettyprinter.comment('v', 'note   \n  indented  ')},
    ]


import abc as _abc


class BoxABC(_abc.ABC):
    """a printer is registered for this ABC; VBox is only a VIRTUAL subclass (BoxABC.register), HBox one through __subclasshook__"""


class HookABC(_abc.ABC):
    @classmethod
    def __subclasshook__(cls, C):
        return True if any('is_hbox' in B.__dict__ for B in C.__mro__) else NotImplemented


class VBox:
    def __init__(self, payload):
        self.payload = payload


class HBox:
    is_hbox = True

    def __init__(self, payload):
        self.payload = payload


BoxABC.register(VBox)


class ListSink:
    """a stream that is FALSY while empty (a list-backed recorder with __len__)"""
    def __init__(self):
        self.parts = []

    def write(self, text):
        self.parts.append(text)
        return len(text)

    def __len__(self):
        return len(self.parts)

    def getvalue(self):
        return ''.join(self.parts)


class WriteOnly:
    """nothing but write(); always falsy"""
    def __init__(self):
        self.parts = []

    def write(self, text):
        self.parts.append(text)

    def __bool__(self):
        return False

    def getvalue(self):
        return ''.join(self.parts)


_STREAM_KINDS = [io.StringIO, ListSink, WriteOnly]
_stream_n = [0]


def new_stream():
    _stream_n[0] += 1
    return _STREAM_KINDS[_stream_n[0] % 3]()


def effective(model, ex):
    eff = dict(model)
    eff.update(ex)
    return eff


def run_history(arg):
    """in a forked child. arg = (history, combos, ends). Returns (obs Counter, violations)."""
    from collections import Counter
    import prettyprinter as pp
    history, combos, ends = arg
    obs = Counter()
    viol = []

    @pp.register_pretty(Reg)
    def pretty_reg(r, ctx):
        return pp.pretty_call(ctx, Reg, r.payload)
    Reg.__repr__ = pp.pretty_repr

    @pp.register_pretty(__name__ + '.RegByName')
    def pretty_regbyname(r, ctx):
        return pp.pretty_call(ctx, type(r), r.payload)
    RegByName.__repr__ = pp.pretty_repr
    @pp.register_pretty(BoxABC)
    def pretty_boxabc(b, ctx):
        return pp.pretty_call(ctx, type(b), b.payload)

    @pp.register_pretty(HookABC)
    def pretty_hookabc(b, ctx):
        return pp.pretty_call(ctx, type(b), hooked=b.payload)
    VBox.__repr__ = pp.pretty_repr
    HBox.__repr__ = pp.pretty_repr
    # pretty_repr BEFORE any other entry point has resolved the deferred printer (fresh fork: nothing printed yet)
    M.take_warnings()
    for box in ((VBox([1, 2]), HBox('x')) if len(history) % 3 else (HBox('x'), VBox([1, 2]))):
        try:
            rb = repr(box)
            wb = M.take_warnings()
            wantb = pp.pformat(box)
            obs['entry point calls compared'] += 1
            if rb != wantb or wb or 'object at 0x' in rb:
                viol.append(('entry-point-differs:pretty_repr-of-a-virtual-subclass', 'repr() of an instance whose class is a virtual subclass of an ABC with a registered printer gives %r (warnings %r), pformat gives %r' % (rb[:200], [w[1][:80] for w in wb], wantb[:200]), {'history': history}))
            else:
                obs['agree: pretty_repr for virtual subclasses of a registered ABC'] += 1
        except Exception as e:
            viol.append(('entry-point-raised', 'pretty_repr on a virtual subclass: %r' % (e,), {'history': history}))
    M.take_warnings()
    first = RegSub({'k': [1, 2]}) if len(history) % 2 else RegByName({'k': [1, 2]})
    try:
        r0 = repr(first)
        w0 = M.take_warnings()
        want0 = pp.pformat(first)
        obs['entry point calls compared'] += 1
        if r0 != want0 or w0:
            viol.append(('entry-point-differs:pretty_repr-first-use-of-deferred-type', 'repr() as the first entry point for a type registered by name gives %r (warnings %r), pformat gives %r' % (r0[:200], [w[1][:80] for w in w0], want0[:200]), {'history': history}))
        else:
            obs['agree: pretty_repr as first entry point of a deferred type'] += 1
    except Exception as e:
        viol.append(('entry-point-raised', 'pretty_repr on a deferred type: %r' % (e,), {'history': history}))

    s = io.StringIO()
    pp.cpprint([1, 'a', None], stream=s)
    if '\x1b' in s.getvalue():
        return obs, [('color-not-off', 'cpprint emits escape sequences although COLORFUL_DISABLE=1', {})], True
    model = dict(INITIAL)
    vals = values()

    def bad(key, msg, case):
        if len(viol) < 20:
            viol.append((key, msg, case))

    if dict(pp.get_default_config()) != model:
        bad('initial-defaults', 'get_default_config() initially %r' % dict(pp.get_default_config()), {'history': []})
    # long-lived printer objects: built BEFORE the history changes the defaults, used after it (a setting left to the default is resolved
    # at the call, like every other entry point: "later calls without explicit arguments use" the new defaults)
    early = []
    try:
        early = [(ex, pp.PrettyPrinter(**ex)) for ex in ([{}] + list(combos[:5]))]
    except Exception as e:
        bad('prettyprinter-class-raised', 'PrettyPrinter(**settings) raised %r' % (e,), {'history': []})
    for step, upd in enumerate(history):
        try:
            pp.set_default_config(**upd)
        except Exception as e:
            bad('set-default-config-raised', repr(e), {'history': history[:step + 1]})
            return obs, viol, False
        model.update({k: v for k, v in upd.items() if k != 'style'})
        if 'style' in upd:
            from prettyprinter import color as _c
            want_style = _c.default_light_style if upd['style'] == 'light' else _c.default_dark_style
            if _c.default_style is not want_style:
                bad('style-not-set', 'set_default_config(style=%r) left color.default_style at %r' % (upd['style'], _c.default_style), {'history': history[:step + 1]})
            else:
                obs['default style switches verified'] += 1
        got = dict(pp.get_default_config())
        if got != model:
            bad('defaults-state', 'after %r get_default_config() reports %r, the model %r' % (upd, got, model), {'history': history[:step + 1]})
            return obs, viol, False
        obs['get_default_config states verified'] += 1

    def ref(v, eff):
        return pp.pformat(v, indent=eff['indent'], width=eff['width'], depth=eff['depth'], ribbon_width=eff['ribbon_width'],
                          max_seq_len=eff['max_seq_len'], sort_dict_keys=eff['sort_dict_keys'])

    # anchors: every setting matters for value 0/1/2 when passed explicitly
    base = dict(INITIAL)
    for key in KEYS:
        a, b = DOMAINS[key]
        outs = set()
        for v in vals[:3]:
            ea, eb = dict(base, **{key: a}), dict(base, **{key: b})
            if key == 'indent' or key == 'ribbon_width':
                ea['width'] = eb['width'] = 20
            if ref(v, ea) != ref(v, eb):
                outs.add(1)
        if not outs:
            bad('explicit-setting-ignored', 'passing %s=%r or %r explicitly never changes the output' % (key, a, b), {'history': history, 'setting': key})
        else:
            obs['sensitivity anchors verified'] += 1

    for ex in combos:
        eff = effective(model, ex)
        for vi, v in enumerate(vals):
            case = {'history': history, 'explicit': {k: repr(x) for k, x in ex.items()}, 'value': vi}
            try:
                want = ref(v, eff)
            except Exception as e:
                bad('reference-raised', repr(e), case)
                continue
            M.take_warnings()

            def expect(name, got, wanted=want):
                obs['entry point calls compared'] += 1
                if got != wanted:
                    bad('entry-point-differs:' + name, '%s gives %r, pformat with all effective settings explicit gives %r' % (name, got[:200], wanted[:200]), dict(case, entry=name))
                    return False
                obs['agree: ' + name] += 1
                return True
            try:
                expect('pformat', pp.pformat(v, **ex))
                if 'indent' in ex:
                    pos = [ex['indent']]
                    rest = {k: x for k, x in ex.items() if k != 'indent'}
                    if 'width' in ex:
                        pos.append(rest.pop('width'))
                        if 'depth' in ex:
                            pos.append(rest.pop('depth'))
                    expect('pformat-positional', pp.pformat(v, *pos, **rest))
                    st = new_stream()
                    pp.pprint(v, st, *pos, **rest)
                    expect('pprint-positional', st.getvalue(), want + '\n')
                for end in ends:
                    st = new_stream()
                    pp.pprint(v, stream=st, end=end, **ex)
                    expect('pprint', st.getvalue(), want + end)
                    st = new_stream()
                    pp.cpprint(v, stream=st, end=end, **ex)
                    expect('cpprint(color off)', st.getvalue(), want + end)
                old = sys.stdout
                sys.stdout = st = io.StringIO()
                try:
                    pp.pprint(v, **ex)
                finally:
                    sys.stdout = old
                expect('pprint-stdout', st.getvalue(), want + '\n')
            except Exception as e:
                bad('entry-point-raised', repr(e), case)
                continue
            try:
                printer = pp.PrettyPrinter(**ex)
                expect('PrettyPrinter.pformat', printer.pformat(v))
                st = new_stream()
                pp.PrettyPrinter(stream=st, **ex).pprint(v)
                expect('PrettyPrinter.pprint', st.getvalue(), want + '\n')
            except Exception as e:
                bad('prettyprinter-class-raised', 'PrettyPrinter(**settings).pformat/pprint raised %r' % (e,), case)
    for ex, printer in early:
        eff = effective(model, ex)
        for vi, v in enumerate(vals[:4]):
            case = {'history': history, 'explicit': {k: repr(x) for k, x in ex.items()}, 'value': vi, 'printer object': 'constructed before the history'}
            try:
                want = ref(v, eff)
                got = printer.pformat(v)
            except Exception as e:
                bad('prettyprinter-class-raised', 'a PrettyPrinter built before set_default_config raised %r' % (e,), case)
                continue
            obs['entry point calls compared'] += 1
            if got != want:
                bad('entry-point-differs:PrettyPrinter-built-before-set_default_config', 'a PrettyPrinter(**explicit) constructed before the defaults were changed gives %r, pformat with the explicit settings and the CURRENT defaults gives %r' % (got[:200], want[:200]), case)
            else:
                obs['agree: PrettyPrinter object built before set_default_config'] += 1
    # pretty_repr uses the defaults only
    try:
        r = repr(vals[3])
        obs['entry point calls compared'] += 1
        if r != ref(vals[3], model):
            bad('entry-point-differs:pretty_repr', 'pretty_repr gives %r, pformat under the current defaults %r' % (r[:200], ref(vals[3], model)[:200]), {'history': history})
        else:
            obs['agree: pretty_repr'] += 1
    except Exception as e:
        bad('entry-point-raised', 'pretty_repr: %r' % (e,), {'history': history})
    return obs, viol, False


def first_use_child(arg):
    """fresh fork: the FIRST thing that ever touches a lazily registered type is the given entry point"""
    entry, which = arg
    import io
    import uuid
    import enum
    import pathlib
    import prettyprinter as pp

    class E(enum.Enum):
        A = 1

    @pp.register_pretty(__name__ + '.RegByName')
    def pretty_regbyname(r, ctx):
        return pp.pretty_call(ctx, type(r), r.payload)
    RegByName.__repr__ = pp.pretty_repr
    values = {'uuid': uuid.UUID(int=5), 'enum': E.A, 'path': pathlib.PurePosixPath('/a/b'), 'byname': RegByName([1]), 'byname-sub': RegSub([2]), 'nested': [uuid.UUID(int=6), {'k': E.A}]}
    v = values[which]
    M.install_warning_recorder()
    M.take_warnings()
    if entry == 'pformat':
        out = pp.pformat(v)
    elif entry == 'pprint':
        st = io.StringIO()
        pp.pprint(v, stream=st, end='')
        out = st.getvalue()
    elif entry == 'cpprint':
        st = io.StringIO()
        pp.cpprint(v, stream=st, end='')
        out = st.getvalue()
    elif entry == 'PrettyPrinter':
        out = pp.PrettyPrinter().pformat(v)
    elif entry == 'pretty_repr':
        out = repr(v) if which.startswith('byname') else pp.pretty_repr(v)
    elif entry == 'is_registered-then-pformat':
        pp.is_registered(type(v), check_superclasses=True, check_deferred=True, register_deferred=False)
        out = pp.pformat(v)
    return out, [w[1][:120] for w in M.take_warnings()]


def first_use(sh):
    entries = ['pformat', 'pprint', 'cpprint', 'PrettyPrinter', 'pretty_repr', 'is_registered-then-pformat']
    whichs = ['uuid', 'enum', 'path', 'byname', 'byname-sub', 'nested']
    n = 0
    for which in whichs:
        ref = None
        for entry in entries:
            n += 1
            if not sh.mine(n):
                continue
            if ref is None:
                st0, ref = fork_call(first_use_child, ('pformat', which), timeout=120)
                if st0 != 'ok':
                    sh.inconclusive.append('first-use reference failed: %s' % (ref,))
                    return
            st, r = fork_call(first_use_child, (entry, which), timeout=120)
            if st != 'ok':
                sh.inconclusive.append('first-use child failed: %s %s' % (st, str(r)[:200]))
                continue
            if r != ref:
                sh.violation('first-use-entry-point-differs:' + entry, 'the first print of a lazily registered value (%s) through %s gives %r / warnings %r, through pformat %r' % (which, entry, r[0][:200], r[1], ref[0][:200]),
                             {'first_use': [entry, which]})
            else:
                sh.counters['first-use prints through an entry point equal to pformat'] += 1
            sh.case(('first-use', entry, which))


def gen_history(rng):
    h = []
    for _ in range(rng.choice([0, 1, 1, 2, 3, 5])):
        keys = rng.sample(SETTABLE, rng.randint(1, 3))
        dom = WIDE if rng.random() < 0.4 else DOMAINS
        step = {k: rng.choice(dom[k]) for k in keys}
        if rng.random() < 0.15:
            step['style'] = rng.choice(['light', 'dark'])
        h.append(step)
        if rng.random() < 0.15 and h:
            h.append(dict(h[-1]))          # the same call again: setting a value equal to the current one
    return h


def wide_combos(rng, n):
    out = []
    for _ in range(n):
        ex = {}
        for k in KEYS:
            if rng.random() < 0.5:
                ex[k] = rng.choice(WIDE[k])
        out.append(ex)
    return out


def all_combos():
    out = []
    for choice in itertools.product(*[[UNSET] + DOMAINS[k] for k in KEYS]):
        out.append({k: c for k, c in zip(KEYS, choice) if not (isinstance(c, str) and c == UNSET)})
    return out


def run_shard(sh):
    quick = sh.tier == 'quick'
    combos_all = all_combos()
    first_use(sh)
    nh = 32 if quick else 320
    for i in range(nh):
        if not sh.mine(i):
            continue
        rng = V.rng_for('c18', sh.seed, i)
        history = [] if i < 2 else gen_history(rng)
        combos = (rng.sample(combos_all, 80) if quick else combos_all) + wide_combos(rng, 40 if quick else 400)
        ends = ['\n', '', 'X'] if not quick else [rng.choice(['\n', '', 'X'])]
        status, res = fork_call(run_history, (history, combos, ends), timeout=1500)
        if status != 'ok':
            sh.inconclusive.append('history %d: %s %s' % (i, status, str(res)[:300]))
            continue
        obs, viol, color_on = res
        if color_on:
            sh.inconclusive.append('color could not be switched off')
            continue
        sh.counters.update(obs)
        for key, msg, case in viol:
            sh.violation(key, msg, case)
        for ex in combos:
            sh.case((repr(history), repr(sorted(ex.items(), key=repr))), nontrivial=bool(ex or history))
        sh.counters['histories'] += 1
        sh.see('history lengths', len(history))
        if i % 8 == 0:
            sh.sample({'history': history, 'explicit (first of %d)' % len(combos): {k: repr(v) for k, v in combos[0].items()}})


def finalize(m):
    need = ['get_default_config states verified', 'sensitivity anchors verified', 'agree: pformat', 'agree: pformat-positional', 'agree: pprint', 'agree: pprint-positional',
            'agree: pprint-stdout', 'agree: cpprint(color off)', 'agree: PrettyPrinter.pformat', 'agree: PrettyPrinter.pprint', 'agree: pretty_repr', 'agree: pretty_repr as first entry point of a deferred type', 'first-use prints through an entry point equal to pformat']
    for name in need:
        if not m.counters.get(name):
            m.inconclusive.append('monitor never reached: ' + name)


def replay(wit):
    c = wit['case']
    if 'first_use' in c:
        entry, which = c['first_use']
        a = fork_call(first_use_child, ('pformat', which), timeout=120)
        b = fork_call(first_use_child, (entry, which), timeout=120)
        print('pformat first :', a)
        print(entry, 'first:', b)
        print('holds on this case' if a == b else 'VIOLATED first-use-entry-point-differs')
        return a == b
    history = c.get('history', [])
    ex = {k: eval(v) for k, v in c.get('explicit', {}).items()}
    status, res = fork_call(run_history, (history, [ex], ['\n', '', 'X']), timeout=300)
    print('history:', history, 'explicit:', ex)
    if status != 'ok':
        print('replay child:', status, res)
        return False
    obs, viol, _ = res
    for key, msg, case in viol:
        print('VIOLATED', key, msg[:600])
    if not viol:
        print('holds on this case')
    return not viol


LEVEL = 'exploration'
TECHNIQUE = 'runtime differential oracle across entry points against a configuration model, histories of set_default_config in forked children, sensitivity anchors'
LEVEL_TEXT = ('After each generated history of set_default_config calls (fresh forked interpreter state per history), a sample (thorough: all 729) of explicit/unset combinations of the six settings is run through '
              'nine entry-point variants (streams: StringIO, a list-backed sink that is falsy while empty, a write-only falsy object) on values sensitive to every setting, incl. comments with whitespace-only lines; pretty_repr also as first entry point of by-name types and for virtual subclasses of a registered ABC; all must equal pformat with every effective setting explicit, and get_default_config must equal the model after every step.')
LEVEL_NOTE = 'The reference is the same pformat with all arguments explicit, anchored by sensitivity checks (each explicit setting must change the output of a designated value).'
