"""C09 - comments are inert and preserved.

Oracle: (a) the commented output parses; (b) its AST equals the AST of the uncommented value printed at the same
configuration (Set displays compared as multisets) - this is what catches the comma of a 1-tuple sliding into a
comment or a comment swallowing an element; (c) no exception, no warning; (d) the word stream of all COMMENT tokens
contains each attached comment's words as a contiguous run and, as a multiset, nothing else.
"""
import ast
import collections
import io
import itertools
import tokenize

import prettyprinter
from prettyprinter import pretty_call_alt, register_pretty

from .. import monitors as M
from .. import values as V

RULE = ('all placements of comment()/trailing_comment() on the nodes of value trees with <= 4 nodes (list, 1-/n-tuple, set, frozenset, dict keys/values, '
        'namedtuple fields, args/kwargs of a pretty_call user type, top level; singles and pairs in quick, all subsets in thorough) with texts drawn from an '
        'adversarial template list (newlines, blank lines, #, quotes, brackets, tabs, \\r \\x0b \\x0c \\x1c \\x85 \\u2028, long words, many words) x widths; '
        'a case is (tree, placement, texts, width); every case carries at least one comment so all are non-trivial; distinct by canonical recipe')
ASSUMPTIONS = ['tokenize/ast are correct', 'one comment and one trailing comment per node (double wrapping is outside the generator)',
               'comment texts consist of printable characters and whitespace (no NUL)']

NT = collections.namedtuple('NT', 'a b')


class UT:
    """User type printed through pretty_call_alt."""

    def __init__(self, *args, **kwargs):
        self.args, self.kwargs = args, kwargs

    def __eq__(self, other):
        return type(other) is UT and (self.args, self.kwargs) == (other.args, other.kwargs)

    def __hash__(self):
        return hash((UT, len(self.args)))

    def __repr__(self):
        return 'UT(*%r, **%r)' % (self.args, self.kwargs)


@register_pretty(UT)
def pretty_ut(value, ctx):
    return pretty_call_alt(ctx, UT, args=value.args, kwargs=list(value.kwargs.items()))


TEMPLATES = [
    'W', 'W x', 'W #', '# W', 'W \'q\' "d"', 'W ] ) }', 'W [ ( {', 'W, x,', 'W \\', '  W', 'W  ', 'W   x y', 'W\tx', 'W\nx', 'W\n\nx', '\nW', 'W\n',
    'W\rx', 'W\x0bx', 'W\x0cx', 'W\x1cx', 'W\x85x', 'W x', 'W' + 'z' * 100, 'W ' + ' '.join('w%d' % i for i in range(30)),
    'W """ x', "W ''' x", 'W \xe9 中', 'W\\n', 'W: x = 1', 'W\n  indented\n    more', 'W \x1f x', ' ', 'W\n \nx', 'W,', 'W )  # x',
    'W\t', 'W\n\t\nx', '\tW', 'W \t ', 'W\x0b', 'W x\xa0', 'W\t\nx\t',
    'W {}', 'W {0} x', 'W {name}', 'W { x', 'W } x', 'W %s', 'W %d %(k)s', 'W 100%', 'W $x ${y}', 'W {{}}',
]
TRAILABLE = ('list', 'tuple', 'set', 'dict')


# ------------------------------------------------------------ shapes -> recipes
def shapes(n, hashable_only=False):
    if n == 1:
        yield 'L'
        for k in (['tuple', 'frozenset'] if hashable_only else ['list', 'tuple', 'set', 'frozenset', 'dict', 'UT']):
            yield (k, [])
        return
    kinds = ['tuple', 'frozenset', 'NT'] if hashable_only else ['list', 'tuple', 'set', 'frozenset', 'dict', 'NT', 'UTa', 'UTk', 'UTak']
    for k in kinds:
        child_hash = hashable_only or k in ('set', 'frozenset')
        for parts in V.compositions(n - 1):
            if k == 'NT' and len(parts) != 2:
                continue
            for ch in itertools.product(*[list(shapes(p, child_hash)) for p in parts]):
                yield (k, list(ch))


def node_count(shape):
    return 1 if shape == 'L' else 1 + sum(node_count(c) for c in shape[1])


def to_recipe(shape, counter, marks):
    """marks: {node_index: {'c': text, 't': text}} - node indices in pre-order."""
    idx = counter[0]
    counter[0] += 1
    if shape == 'L':
        counter[1] += 1
        r = ['int', counter[1]] if counter[1] % 2 else ['str', 's%d' % counter[1]]
        if counter[1] % 7 == 3:
            # a value that the bundled printers already show with a note of their own ("print  # built-in function"): a user comment on it
            # replaces that note, without one the note is the only comment
            r = ['ident', ['print', 'deque', 'len', 'OrderedDict'][(counter[1] // 7) % 4]]
        kind = 'leaf'
    else:
        k, ch = shape
        kids = [to_recipe(c, counter, marks) for c in ch]
        kind = k
        if k in ('list', 'tuple', 'set', 'frozenset'):
            r = [k, kids]
        elif k == 'dict':
            pairs = []
            for c in kids:
                counter[1] += 1
                key = ['str', 'k%d' % counter[1]] if counter[1] % 2 else ['int', 100 + counter[1]]
                km = marks.get(('key', idx, len(pairs)))
                if km:
                    key = ['comment', key, km]
                pairs.append([key, c])
            r = ['dict', pairs]
        elif k == 'NT':
            r = ['call', 'NT', [], [['a', kids[0]], ['b', kids[1]]]]
        elif k in ('UT', 'UTa'):
            r = ['call', 'UT', kids, []]
        elif k == 'UTk':
            r = ['call', 'UT', [], [['k%d' % i, c] for i, c in enumerate(kids)]]
        elif k == 'UTak':
            r = ['call', 'UT', kids[:1], [['k%d' % i, c] for i, c in enumerate(kids[1:])]]
    m = marks.get(idx, {})
    if 't' in m:
        r = ['tcomment', r, m['t']]
    if 'c' in m:
        r = ['comment', r, m['c']]
    return r


def nodes_of(shape, out=None, idx=None):
    """pre-order list of (index, kind, n_children)"""
    if out is None:
        out, idx = [], [0]
    i = idx[0]
    idx[0] += 1
    if shape == 'L':
        out.append((i, 'leaf', 0))
    else:
        out.append((i, shape[0], len(shape[1])))
        for c in shape[1]:
            nodes_of(c, out, idx)
    return out


def strip(r):
    k = r[0]
    if k in ('comment', 'tcomment'):
        return strip(r[1])
    if k in ('list', 'tuple', 'set', 'frozenset'):
        return [k, [strip(c) for c in r[1]]]
    if k == 'dict':
        return ['dict', [[strip(a), strip(b)] for a, b in r[1]]]
    if k == 'call':
        return ['call', r[1], [strip(a) for a in r[2]], [[kw, strip(v)] for kw, v in r[3]]]
    return r


def attached(r, out):
    """[(kind, text, node kind, node is empty)] in no particular order"""
    k = r[0]
    if k in ('comment', 'tcomment'):
        inner = r[1]
        while inner[0] in ('comment', 'tcomment'):
            inner = inner[1]
        empty = inner[0] in ('list', 'tuple', 'set', 'frozenset', 'dict') and not inner[1]
        out.append(('c' if k == 'comment' else 't', r[2], inner[0], empty))
        if inner[0] == 'ident' and r[1][0] == 'ident':
            return out          # the user's comment stands in place of the printer's own note
        attached(r[1], out)
    elif k == 'ident':
        out.append(('c', V.IDENT_NOTES[r[1]], 'ident', False))
    elif k in ('list', 'tuple', 'set', 'frozenset'):
        for c in r[1]:
            attached(c, out)
    elif k == 'dict':
        for a, b in r[1]:
            attached(a, out)
            attached(b, out)
    elif k == 'call':
        for a in r[2]:
            attached(a, out)
        for _, v in r[3]:
            attached(v, out)
    return out


ENVB = V.BuildEnv({'NT': NT, 'UT': UT})
NS = {'vlib': __import__('vlib'), 'collections': __import__('collections')}


# ---------------------------------------------------------------- oracle
def comment_words(text):
    words = []
    for tok in tokenize.generate_tokens(io.StringIO('(' + text + '\n)').readline):
        if tok.type == tokenize.COMMENT:
            words.extend(tok.string[1:].split())
    return words


def find_run(hay, needle, used):
    n = len(needle)
    if n == 0:
        return True
    for i in range(len(hay) - n + 1):
        if hay[i:i + n] == needle and not any(used[i:i + n]):
            for j in range(i, i + n):
                used[j] = True
            return True
    return False


SKIP = object()


def collides(r):
    """True if stripping the comment wrappers would merge set elements / dict keys (harness artefact, not judged)."""
    k = r[0]
    if k in ('comment', 'tcomment'):
        return collides(r[1])
    if k in ('set', 'frozenset'):
        cs = [repr(V.canon(V.build(strip(c), ENVB))) for c in r[1]]
        if len(set(cs)) != len(cs):
            return True
    if k in ('list', 'tuple', 'set', 'frozenset'):
        return any(collides(c) for c in r[1])
    if k == 'dict':
        return any(collides(a) or collides(b) for a, b in r[1])
    if k == 'call':
        return any(collides(a) for a in r[2]) or any(collides(v) for _, v in r[3])
    return False


def check_one(sh, recipe, cfg):
    case = {'recipe': recipe, 'cfg': cfg}
    if collides(recipe):
        sh.counters['skipped: set elements equal after stripping'] += 1
        return SKIP
    att = attached(recipe, [])
    try:
        value = V.build(recipe, ENVB)
        plain_value = V.build(strip(recipe), ENVB)
    except TypeError:
        return None
    try:
        text, ws = M.pp(value, **cfg)
    except M.MonitorAbort as e:
        sh.violation(getattr(e, 'key', 'monitor-abort'), str(e), case)
        return None
    except Exception as e:
        key = 'pformat-raised'
        if isinstance(e, IndexError) and any(has_blank_line(t) for _, t, _, _ in att):
            key = 'raise-on-blank-comment-line'
        sh.violation(key, 'pformat raised %r' % (e,), case)
        return None
    if ws:
        blank = any(has_blank_line(t) for _, t, _, _ in att)
        key = 'fallback-warning' if M.fallback_warnings(ws) else 'unexpected-warning'
        if key == 'fallback-warning' and 'IndexError' in ws[0][1] and blank:
            key = 'fallback-on-blank-comment-line'
        sh.violation(key, 'warning: %s' % ws[0][1][-400:], case)
        return text
    plain, ws2 = M.pp(plain_value, **cfg)
    try:
        t_c = V.ast_dump(text)
    except SyntaxError as e:
        sh.violation('not-parseable', 'commented output is not an expression: %r; output=%r' % (e, text[:300]), case)
        return text
    t_p = V.ast_dump(plain)
    if t_c != t_p:
        key = 'ast-changed'
        try:
            vc, vp = V.evaluate(text, NS), V.evaluate(plain, NS)
            if isinstance(vp, tuple) and len(vp) == 1 or '(' in plain and one_tuple_inside(plain_value):
                key = 'ast-changed-one-tuple'
        except Exception:
            pass
        sh.violation(key, 'syntax tree differs from the uncommented output: %r vs %r' % (text[:300], plain[:300]), case)
        return text
    if cfg.get('max_seq_len') is not None or cfg.get('depth') is not None:
        # under truncation only inertness is judged here (the commented and the uncommented value are cut alike and no printer failed);
        # which comments survive a cut is C10's / C11's business
        sh.counters['inertness verified under max_seq_len / depth'] += 1
        return text
    try:
        words = comment_words(text)
    except (tokenize.TokenError, IndentationError, SyntaxError) as e:
        sh.violation('not-tokenizable', repr(e), case)
        return text
    used = [False] * len(words)
    missing = []
    for kind, t, nk, empty in sorted(att, key=lambda a: -len(a[1].split())):
        if not find_run(words, t.split(), used):
            missing.append((kind, t, nk, empty))
    if missing:
        if all(kind == 't' and empty and nk in ('list', 'tuple', 'set') for kind, t, nk, empty in missing):
            # known mechanism; the rest of this case is still judged below
            sh.violation('trailing-comment-on-empty-sequence', 'trailing comment on an empty %s is dropped: %r' % (missing[0][2], text[:200]), case)
        else:
            sh.violation('comment-words-missing', 'words of %r not found contiguously in comments %r; output=%r' % (missing[0][1], words[:40], text[:300]), case)
            return text
    if not all(used):
        extra = [w for w, u in zip(words, used) if not u]
        sh.violation('comment-words-extra', 'comment words %r not belonging to any attached comment; output=%r' % (extra[:10], text[:300]), case)
        return text
    sh.counters['comments verified'] += len(att)
    sh.counters['comment words verified'] += len(words)
    for kind, t, nk, empty in att:
        sh.see('commented node kinds', ('trailing on ' if kind == 't' else 'comment on ') + nk)
    flat = any(ln.rstrip() and not ln.lstrip().startswith('#') and '#' in ln for ln in text.split('\n'))
    above = any(ln.lstrip().startswith('#') for ln in text.split('\n'))
    if flat:
        sh.counters['outputs with end-of-line comments'] += 1
    if above:
        sh.counters['outputs with own-line comments'] += 1
    return text


def has_blank_line(t):
    return any(not ln.strip() for ln in t.splitlines())


def one_tuple_inside(v):
    if isinstance(v, tuple) and not hasattr(v, '_fields'):
        if len(v) == 1:
            return True
    if isinstance(v, dict):
        return any(one_tuple_inside(k) or one_tuple_inside(x) for k, x in v.items())
    if isinstance(v, (list, tuple, set, frozenset)):
        return any(one_tuple_inside(x) for x in v)
    if isinstance(v, UT):
        return any(one_tuple_inside(x) for x in v.args) or any(one_tuple_inside(x) for x in v.kwargs.values())
    return False


def text_for(rng, uid):
    return rng.choice(TEMPLATES).replace('W', 'W%d' % uid)


def placements(shape, quick, rng):
    nodes = nodes_of(shape)
    slots = []
    for i, kind, nch in nodes:
        slots.append((i, 'c'))
        if kind in TRAILABLE:
            slots.append((i, 't'))
        if kind == 'dict':
            for j in range(nch):
                slots.append((('key', i, j), 'k'))
    out = []
    if quick:
        for s in slots:
            out.append([s])
        pairs = list(itertools.combinations(slots, 2))
        rng.shuffle(pairs)
        out.extend([list(p) for p in pairs[:6]])
        if len(slots) > 2:
            out.append(slots)
    else:
        for r in range(1, len(slots) + 1):
            combos = list(itertools.combinations(slots, r))
            cap = 12 if r <= 2 else 4
            if len(combos) > cap:
                rng.shuffle(combos)
                combos = combos[:cap]
            out.extend([list(c) for c in combos])
    return out


def make_marks(placement, rng):
    marks = {}
    uid = 0
    for slot, what in placement:
        uid += 1
        t = text_for(rng, uid)
        if what == 'k':
            marks[slot] = t
        else:
            marks.setdefault(slot, {})[what] = t
    return marks


WIDTHS = [1, 10, 20, 40, 79]


def run_shard(sh):
    M.install_warning_recorder()
    M.install_string_contracts()
    quick = sh.tier == 'quick'
    idx = 0
    for n in range(1, 5):
        for shape in shapes(n):
            idx += 1
            if not sh.mine(idx):
                continue
            rng = V.rng_for('c09', sh.seed, idx)
            for pl in placements(shape, quick, rng):
                for rep in range(1 if quick else 2):
                    marks = make_marks(pl, rng)
                    recipe = to_recipe(shape, [0, 0], marks)
                    for w in ([rng.choice(WIDTHS)] if quick else rng.sample(WIDTHS, 3)):
                        cfg = {'width': w, 'ribbon_width': rng.choice([w, 71, 5]), 'indent': rng.choice([4, 4, 1, 2, 8])}
                        if check_one(sh, recipe, cfg) is not SKIP:
                            sh.case((repr(recipe), sorted(cfg.items())))
            sh.counters['exhaustive shapes'] += 1
            if idx % 900 == 0:
                sh.sample({'recipe': recipe, 'cfg': cfg})
    long_sequence_cases(sh, quick)
    # random larger trees with many comments
    for i in range(1200 if quick else 40000):
        idx += 1
        if not sh.mine(idx):
            continue
        rng = V.rng_for('c09r', sh.seed, i)
        n = rng.randint(5, 7)
        shape = rand_shape(rng, n)
        nodes = nodes_of(shape)
        slots = []
        for j, kind, nch in nodes:
            if rng.random() < 0.5:
                slots.append((j, 'c'))
            if kind in TRAILABLE and rng.random() < 0.4:
                slots.append((j, 't'))
            if kind == 'dict':
                for q in range(nch):
                    if rng.random() < 0.4:
                        slots.append((('key', j, q), 'k'))
        if not slots:
            slots = [(0, 'c')]
        recipe = to_recipe(shape, [0, 0], make_marks(slots, rng))
        cfg = {'width': rng.choice(WIDTHS + [rng.randint(1, 120)]), 'ribbon_width': rng.randint(1, 120), 'indent': rng.randint(1, 8)}
        if check_one(sh, recipe, cfg) is not SKIP:
            sh.case((repr(recipe), sorted(cfg.items())))
            if i % 3 == 0:
                has_set = "'set'" in repr(recipe) or "'frozenset'" in repr(recipe)
                keys_commented = any(kind == 'k' for _, kind in slots)
                choices = []
                if not has_set:
                    # (a commented set element is hashed by identity: the commented and the stripped set iterate differently, so a cut keeps
                    #  different elements)
                    choices += [{'max_seq_len': rng.choice([1, 2, 3])}]
                if not keys_commented:
                    # (a commented str dict key is cut like any value while a bare one stays visible - the listed C11 finding - so with commented
                    #  keys the two outputs differ for a reason that is not the comment's doing)
                    choices += [{'depth': rng.choice([1, 2, 3])}]
                if not choices:
                    continue
                cfg2 = dict(cfg, **rng.choice(choices))
                check_one(sh, recipe, cfg2)
                sh.case((repr(recipe), sorted(cfg2.items())))
        sh.counters['random shapes'] += 1
        if i % 500 == 0:
            sh.sample({'recipe': recipe, 'cfg': cfg})


def long_sequence_cases(sh, quick):
    """sequences long enough for the printers' 'always break, skip the layout' shortcut (> ~50 elements), with comments at chosen positions"""
    for i in range(60 if quick else 1500):
        if not sh.mine(i):
            continue
        rng = V.rng_for('c09long', sh.seed, i)
        n = rng.choice([49, 50, 51, 52, 60, 75, 120])
        kind = rng.choice(['list', 'tuple', 'set', 'dict', 'frozenset', 'call'])
        positions = set(rng.sample(range(n), rng.randint(1, 4)) + rng.choice([[0], [n - 1], [n - 2, n - 1], []]))
        leaves = []
        for j in range(n):
            leaf = ['int', 1000 + j] if rng.random() < 0.7 else ['str', 's%d' % j]
            if j in positions:
                leaf = ['comment', leaf, text_for(rng, j)]
            leaves.append(leaf)
        if kind == 'dict':
            recipe = ['dict', [[['int', j], leaf] for j, leaf in enumerate(leaves)]]
        elif kind == 'call':
            recipe = ['call', 'UT', leaves[:n // 2], [['k%d' % j, leaf] for j, leaf in enumerate(leaves[n // 2:])]]
        else:
            recipe = [kind, leaves]
        if rng.random() < 0.3 and kind in ('list', 'tuple', 'set', 'dict'):
            recipe = ['tcomment', recipe, text_for(rng, 999)]
        cfg = {'width': rng.choice([1, 20, 79, 200, 400]), 'indent': rng.choice([4, 2, 8])}
        if check_one(sh, recipe, cfg) is not SKIP:
            sh.case((repr(recipe), sorted(cfg.items())))
        sh.counters['long sequences (layout shortcut) with comments'] += 1


def rand_shape(rng, n, hashable_only=False):
    if n <= 1:
        return 'L' if rng.random() < 0.8 else (rng.choice(['tuple', 'frozenset'] if hashable_only else ['list', 'tuple', 'set', 'dict', 'UT']), [])
    kinds = ['tuple', 'frozenset', 'NT'] if hashable_only else ['list', 'tuple', 'set', 'frozenset', 'dict', 'NT', 'UTa', 'UTk', 'UTak']
    k = rng.choice(kinds)
    rest = n - 1
    nch = 2 if k == 'NT' else rng.randint(1, min(rest, 4))
    if k == 'NT' and rest < 2:
        k, nch = 'tuple', 1
    sizes = [1] * nch
    for _ in range(rest - nch):
        sizes[rng.randrange(nch)] += 1
    child_hash = hashable_only or k in ('set', 'frozenset')
    return (k, [rand_shape(rng, s, child_hash) for s in sizes])


def finalize(m):
    for name in ('comments verified', 'comment words verified', 'outputs with end-of-line comments', 'outputs with own-line comments'):
        if not m.counters.get(name):
            m.inconclusive.append('monitor never reached: ' + name)
    if len(m.sets.get('commented node kinds', ())) < 10:
        m.inconclusive.append('fewer than 10 kinds of commented nodes observed')


def replay(wit):
    M.install_warning_recorder()
    from ..runner import Shard
    sh = Shard('replay', 0, 0, 1)
    c = wit['case']
    print('recipe:', c['recipe'])
    print('config:', c['cfg'])
    text = check_one(sh, c['recipe'], c['cfg'])
    print('output:\n' + str(text))
    for v in sh.violations:
        print('VIOLATED', v['key'], v['what'][:600])
    if not sh.violations:
        print('holds on this case')
    return not sh.violations


LEVEL = 'exploration'
TECHNIQUE = 'runtime oracle: AST equality with the uncommented print + COMMENT-token word-stream conservation (nothing lost, duplicated, invented or leaked), exhaustive placements on small trees'
LEVEL_TEXT = ('Every placement (singles, pairs, full; all subsets in thorough) of comments and trailing comments on every node of every value tree up to 4 nodes over 9 container/call kinds, '
              'with adversarial texts, is printed at several widths; the syntax tree must equal the uncommented one and the comment words must be conserved exactly.')
LEVEL_NOTE = 'Texts come from a fixed adversarial template list; one comment of each kind per node; trailing comments only on list/tuple/set/dict (the printers that render them).'
ANCHORS = ['prettyprinter.commentdoc', 'prettyprinter.sequence_of_docs', 'prettyprinter.build_fncall', 'prettyprinter.pretty_dict', 'prettyprinter.comment_doc', 'prettyprinter.unwrap_comments']
