"""C19 - output depends only on the value and the settings; inputs are never modified.

The worker imports the package and builds a corpus with deterministic constructors but prints nothing ("pristine parent").
Reference: every corpus entry is printed FIRST in a child forked from that pristine parent (ids are equal across forks, so recursion
markers and default reprs compare directly). Histories: random orders with repetitions plus adversarial orders, each in a fresh fork;
after every call the text must equal the reference. Input snapshot: a deep structural fingerprint of the value's object graph taken
before and after every call must be identical. State monitor: fingerprints (slot by slot) of every module-level Doc constant of the
package before/after each history must be identical; observed transitions of the mutable global state (deferred promotions, struct-
sequence cache entries) are reported so that "warm vs cold" is demonstrably exercised.
"""
import ast
import collections
import enum
import functools
import os
import pathlib
import sys
import time
import types
import uuid

import prettyprinter
from prettyprinter import comment, register_pretty, trailing_comment
from prettyprinter.doctypes import Doc

from .. import monitors as M
from .. import values as V
from ..runner import fork_call
from . import c07, c08, c09, c17

ppm = M.ppm
RULE = ('a corpus of values built by deterministic constructors (built-ins, every lazily registered stdlib type, struct sequences incl. one whose repr cannot be parsed, commented values, subclass '
        'instances, cyclic values, values whose printer fails, several settings); every entry printed first in a fresh fork (reference), then H random histories (orders with repetitions) and adversarial '
        'orders, each in a fresh fork; a case is (history, position); non-trivial = the call is not the first of its history (some other print happened before)')
ASSUMPTIONS = ['fork preserves object ids, so reference texts containing ids compare directly', 'the corpus constructors are deterministic']


class Color(enum.Enum):
    RED = 1


class Failing:
    def __repr__(self):
        return '<Failing instance>'


@register_pretty(Failing)
def pretty_failing(v, ctx):
    raise RuntimeError('this printer always fails')


class Sometimes:
    """its printer fails for some instances only: a failure for one instance must not change how other instances print"""

    def __init__(self, bad, payload):
        self.bad, self.payload = bad, payload

    def __repr__(self):
        return '<Sometimes %r>' % (self.payload,)


@register_pretty(Sometimes)
def pretty_sometimes(v, ctx):
    if v.bad:
        raise LookupError('this instance cannot be printed')
    return prettyprinter.pretty_call(ctx, Sometimes, False, v.payload)


class HBase:
    def __init__(self, x):
        self.x = x

    def __repr__(self):
        return '<%s %r>' % (type(self).__name__, self.x)


class HSub(HBase):
    pass


class HOther(HBase):
    pass


class Event:
    """two PREDICATE printers accept Events: the first-registered one only those without payload, the later one all of them - which one prints
    a value must not depend on which Events were printed before"""
    def __init__(self, name, payload):
        self.name, self.payload = name, payload

    def __repr__(self):
        return '<Event %s>' % self.name


@register_pretty(predicate=lambda v: type(v) is Event and v.payload is None)
def pretty_empty_event(v, ctx):
    return prettyprinter.pretty_call(ctx, 'Event.empty', v.name)


@register_pretty(predicate=lambda v: type(v) is Event)
def pretty_any_event(v, ctx):
    return prettyprinter.pretty_call(ctx, Event, v.name, payload=v.payload)


class Shape:
    """Shape <- Polygon <- Square: printers registered BY NAME for Shape first and for Polygon second, none for Square; both stay pending until a print
    needs them - the nearer one (Polygon) must win from the very first print of a Square"""
    def __init__(self, name, sides=0):
        self.name, self.sides = name, sides


class Polygon(Shape):
    pass


class Square(Polygon):
    pass


@register_pretty(__name__ + '.Shape')
def pretty_shape(v, ctx):
    return prettyprinter.pretty_call(ctx, type(v), v.name)


@register_pretty(__name__ + '.Polygon')
def pretty_polygon(v, ctx):
    return prettyprinter.pretty_call(ctx, type(v), v.name, sides=v.sides)


class MRec:
    """printer registered BY NAME when this module is imported: it stays pending until some print needs it"""


class MPoint(MRec, tuple):
    """two bases: the MRO is MPoint, MRec, tuple, object while __base__ (the layout base) is tuple"""


class MMap(MRec, dict):
    pass


class MList(MRec, list):
    pass


@register_pretty(__name__ + '.MRec')
def pretty_mrec(v, ctx):
    return prettyprinter.pretty_call(ctx, type(v), size=len(v) if hasattr(v, '__len__') else -1)


ARMED = [False]


class Aborts:
    """while armed its printer returns an invalid value: pformat of anything containing it RAISES (ValueError); afterwards the very same objects
    must print as if nothing had happened"""
    def __repr__(self):
        return '<Aborts>'


@register_pretty(Aborts)
def pretty_aborts(v, ctx):
    if ARMED[0]:
        return None
    return prettyprinter.pretty_call(ctx, Aborts)


def _op_arm_abort():
    ARMED[0] = True


def _op_disarm_abort():
    ARMED[0] = False


def _op_register_hbase_by_name():
    @register_pretty(__name__ + '.HBase')
    def pretty_hbase(v, ctx):
        return prettyprinter.pretty_call(ctx, type(v), x=v.x)


def _op_register_hsub_by_class():
    @register_pretty(HSub)
    def pretty_hsub(v, ctx):
        return prettyprinter.pretty_call(ctx, HSub, v.x, special=True)


def _op_narrow_width():
    prettyprinter.set_default_config(width=30)


OPS = {'op:arm-abort': _op_arm_abort, 'op:disarm-abort': _op_disarm_abort, 'op:register-HBase-by-name': _op_register_hbase_by_name, 'op:register-HSub-by-class': _op_register_hsub_by_class, 'op:set-default-width-30': _op_narrow_width}


class UserObj:
    def __init__(self):
        self.a = [1, 2]
        self.b = {'k': 'v'}


@register_pretty(UserObj)
def pretty_userobj(v, ctx):
    return prettyprinter.pretty_call(ctx, UserObj, a=v.a, b=v.b)


def build_corpus(quick):
    """[(name, value, cfg)] - deterministic; built once in the pristine parent."""
    C = []
    add = lambda name, value, cfg=None: C.append((name, value, cfg or {}))
    n = 20 if quick else 150
    for i in range(n):
        add('builtin-%d' % i, V.build(V.rand_tree(V.rng_for('c19b', i))), V.rng_for('c19cfg', i).choice([{}, {'width': 30}, {'width': 10, 'indent': 2}, {'sort_dict_keys': True}]))
    add('uuid', uuid.UUID(int=12345))
    add('uuid-nested', [{'k': uuid.UUID(int=99)}])
    add('enum', Color.RED)
    add('enum-nested', (Color.RED, [Color.RED]))
    add('mappingproxy', types.MappingProxyType({'a': 1}))
    add('partial', functools.partial(int, '7', base=8))
    add('purepath', pathlib.PurePosixPath('/usr/lib/python'))
    add('purepath-windows', [pathlib.PureWindowsPath('C:/x/y')])
    add('ast', ast.parse('f(x, 1)', mode='eval').body)
    add('counter', collections.Counter('abracadabra'))
    add('ordereddict', collections.OrderedDict([('b', 1), ('a', [1, 2])]))
    add('defaultdict', collections.defaultdict(list, {'k': [1]}))
    add('deque', collections.deque([3, 1, 2], maxlen=5))
    add('chainmap', collections.ChainMap({'a': 1}, {'b': 2}))
    add('simplenamespace', types.SimpleNamespace(z=1, a=[1]))
    import datetime
    add('datetime', datetime.datetime(2020, 1, 2, 3, 4, tzinfo=datetime.timezone.utc))
    add('timedelta', datetime.timedelta(days=800, seconds=5))
    add('exception', ValueError('x', 1))
    add('gmtime', time.gmtime(0))
    add('gmtime-nested', [time.gmtime(86400)], {'width': 40})
    add('stat_result', os.stat_result(tuple(range(10))))
    add('sys.flags', sys.flags)
    add('version_info', sys.version_info)
    add('hostile-struct_time', time.struct_time((object(),) * 9))
    add('hostile-struct_time-2', time.struct_time((Failing(),) * 9))
    add('commented', [comment(1, 'one'), comment('two', 'second\nline'), trailing_comment([3], 'tr')])
    add('commented-dict', {'k': comment([1, 2], 'value comment'), comment('key', 'kc'): 1})
    add('commented-top', comment({'a': 1}, 'top level'), {'width': 20})
    for i in range(6 if quick else 60):
        rng = V.rng_for('c19c', i)
        shape = c09.rand_shape(rng, rng.randint(2, 6))
        slots = [(j, 'c') for j, kind, nch in c09.nodes_of(shape) if rng.random() < 0.5] or [(0, 'c')]
        add('commented-rand-%d' % i, V.build(c09.to_recipe(shape, [0, 0], c09.make_marks(slots, rng)), c09.ENVB), {'width': rng.choice([79, 20])})
    for base in c08.BASES:
        cls = c08.FAMILY[base][1]     # the __repr__-overriding variant
        bv = c08.base_values(base, V.rng_for('c19s'), True)[2]
        add('subclass-' + cls.__qualname__, cls(bv))
    add('subclass-before-base', [c08.FAMILY[list][0]([1, 2]), [1, 2]])
    cyc = [1, 2]
    cyc.append({'self': cyc})
    add('cyclic-list', cyc)
    d = {'id': 1}
    d['me'] = (d, [d])
    add('cyclic-dict', d)
    shared = [1, 2]
    add('shared', [shared, shared, {'k': shared}])
    add('sometimes-good', Sometimes(False, [1, 2]))
    add('sometimes-bad', Sometimes(True, [3]))
    add('sometimes-good-nested', {'k': [Sometimes(False, 'x'), Sometimes(True, 'y'), Sometimes(False, 'z')]})
    add('hsub', HSub(1))
    add('hbase', HBase(2))
    add('hother-nested', [HOther(3), HSub(4)])
    add('abort-top', Aborts())
    add('abort-container', {'k': [Aborts(), 1], 'other': (2, 3)})
    add('event-full', Event('a', [1, 2]))
    add('event-empty', Event('ping', None))
    add('event-mixed', [Event('x', None), Event('y', 2), Event('z', None)])
    add('square', Square('unit', 4))
    add('polygon', Polygon('tri', 3))
    add('shape', Shape('blob'))
    add('mpoint', MPoint((1, 2)))
    add('mrec', MRec())
    add('mmap', MMap(a=1))
    add('mlist-nested', {'k': [MList([1]), MPoint((3,))]})
    add('failing', Failing())
    add('failing-nested', {'ok': [1, 2], 'bad': Failing(), 'also ok': 'text'})
    add('userobj', UserObj())
    add('userobj-depth', [UserObj()], {'depth': 1})
    add('long-string', 'lorem ipsum dolor sit amet ' * 6, {'width': 40})
    add('long-bytes-nested', {'k': b'abc def ' * 12}, {'width': 30})
    add('maxseqlen', list(range(20)), {'max_seq_len': 5})
    # the same content through different printers / split patterns / settings (shared memo keys would collide)
    for j, text in enumerate(['usr/local lib/python 3/site packages/some where/deep down/in the/tree of/dirs and/files.txt',
                              'it\'s a "quoted" path/with blanks and/slashes that is/long enough to/be split over/several lines/of output.txt']):
        add('same-text-str-%d' % j, text)
        add('same-text-posixpath-%d' % j, pathlib.PurePosixPath(text))
        add('same-text-windowspath-%d' % j, pathlib.PureWindowsPath(text))
        add('same-text-bytes-%d' % j, text.encode())
        add('same-text-nested-%d' % j, {'k': [text]}, {'width': 50})
        add('same-text-narrow-%d' % j, text, {'width': 30})
        add('same-text-strsub-%d' % j, c08.FAMILY[str][0](text))
    SS, BS = c08.FAMILY[str][0], c08.FAMILY[bytes][0]
    add('same-key-plain-str', {'id': 1, 'name': 'x'})
    add('same-key-str-subclass', {SS('id'): 1, SS('name'): 'x'})
    add('same-key-bytes', {b'id': 1})
    add('same-key-bytes-subclass', {BS(b'id'): 1})
    add('same-key-int-float-bool', [{1: 'a'}, {1.0: 'a'}, {True: 'a'}])
    add('same-key-float-first', [{1.0: 'a'}, {1: 'a'}])
    add('same-key-tuple-variants', [{(1, 2): 0}, {c08.FAMILY[tuple][0]((1, 2)): 0}, {(1.0, 2): 0}])
    # systematic "confusable" families: equal (==, hash) or same-content values of different types, in every position
    L0, T0, D0 = c08.FAMILY[list][0], c08.FAMILY[tuple][0], c08.FAMILY[dict][0]
    I0, F0 = c08.FAMILY[int][0], c08.FAMILY[float][0]
    contents = {
        'one': [1, 1.0, True, I0(1), F0(1.0)],
        'zero': [0, 0.0, -0.0, False, I0(0)],
        'id': ['id', b'id', SS('id'), BS(b'id')],
        'pair': [(1, 2), [1, 2], T0((1, 2)), L0([1, 2]), (1.0, 2), frozenset([1, 2]), {1, 2}],
        'text': ['alpha beta/gamma delta ' * 4, ('alpha beta/gamma delta ' * 4).encode(), SS('alpha beta/gamma delta ' * 4), pathlib.PurePosixPath('alpha beta/gamma delta ' * 4)],
        'map': [{'a': 1}, D0({'a': 1}), collections.OrderedDict(a=1), types.MappingProxyType({'a': 1}), collections.Counter(a=1), collections.defaultdict(None, a=1), types.SimpleNamespace(a=1)],
    }
    for fam, variants in contents.items():
        for vi, v in enumerate(variants):
            add('confusable-%s-%d-bare' % (fam, vi), v)
            add('confusable-%s-%d-in-list' % (fam, vi), [v, 'sibling'])
            add('confusable-%s-%d-as-dict-value' % (fam, vi), {'k': v})
            try:
                hash(v)
                add('confusable-%s-%d-as-dict-key' % (fam, vi), {v: 'value'})
                add('confusable-%s-%d-in-set' % (fam, vi), {v})
            except TypeError:
                pass
    add('same-items-list', [1, 2, 3, 'x'])
    add('same-items-tuple', (1, 2, 3, 'x'))
    add('same-items-set', {1, 2, 3, 'x'})
    add('same-items-deque', collections.deque([1, 2, 3, 'x']))
    add('same-number-int-float', [1, 1.0, True, 0, 0.0, -0.0, False])
    add('same-number-float-first', [-0.0, 0.0, 0, False])
    add('holder', c17.gen_holder(V.rng_for('c19h'))[0])
    insts = list(c07.gen_instances(V.rng_for('c19i'), True))
    for i, (tname, inst) in enumerate(insts[::17 if quick else 3]):
        add('stdlib-%s-%d' % (tname, i), inst)
    return C


# ------------------------------------------------------------- fingerprints
def snapshot(o, memo=None, depth=0):
    """deep structural fingerprint of the object graph reachable from o"""
    if memo is None:
        memo = {}
    if isinstance(o, (int, float, str, bytes, bool, type(None), type(Ellipsis), complex)):
        return (type(o).__name__, repr(o))
    if id(o) in memo:
        return ('ref', id(o))
    memo[id(o)] = True
    t = type(o)
    if depth > 60:
        return ('deep', id(o))
    if isinstance(o, dict):
        body = tuple((snapshot(k, memo, depth + 1), snapshot(v, memo, depth + 1)) for k, v in o.items())
        extra = (getattr(o, 'default_factory', None),) if isinstance(o, collections.defaultdict) else ()
        return ('dict', t.__qualname__, id(o), body, extra)
    if isinstance(o, (list, tuple, collections.deque)):
        extra = (o.maxlen,) if isinstance(o, collections.deque) else ()
        return ('seq', t.__qualname__, id(o), tuple(snapshot(x, memo, depth + 1) for x in o), extra)
    if isinstance(o, (set, frozenset)):
        return ('set', t.__qualname__, id(o), tuple(sorted((snapshot(x, memo, depth + 1) for x in o), key=repr)))
    if isinstance(o, collections.ChainMap):
        return ('chainmap', id(o), tuple(snapshot(m_, memo, depth + 1) for m_ in o.maps))
    if isinstance(o, (types.FunctionType, types.BuiltinFunctionType, type, types.ModuleType)):
        return ('callable', id(o))
    if not (t.__module__ or '').startswith(('vlib', 'prettyprinter', '__main__', 'verif')):
        # library objects (pathlib, uuid, datetime, functools...) keep private lazy caches in their slots/__dict__;
        # those are not the value. Their public state is their repr.
        try:
            return ('libobj', t.__qualname__, id(o), repr(o))
        except Exception:
            return ('libobj', t.__qualname__, id(o))
    parts = []
    d = getattr(o, '__dict__', None)
    if isinstance(d, dict):
        parts.append(tuple((k, snapshot(v, memo, depth + 1)) for k, v in d.items()))
    for cls in t.__mro__:
        for s in getattr(cls, '__slots__', ()) or ():
            if isinstance(s, str) and hasattr(o, s):
                parts.append((s, snapshot(getattr(o, s), memo, depth + 1)))
    try:
        r = repr(o) if t.__repr__ is not object.__repr__ else ''
    except Exception:
        r = '<repr failed>'
    return ('obj', t.__qualname__, id(o), tuple(parts), r)


def doc_fingerprint(d, depth=0):
    if isinstance(d, str) or d is None or isinstance(d, (int, bool)):
        return repr(d)
    if not isinstance(d, Doc) or depth > 20:
        return type(d).__name__
    out = [type(d).__name__]
    for cls in type(d).__mro__:
        for s in getattr(cls, '__slots__', ()) or ():
            v = getattr(d, s, '<unset>')
            if isinstance(v, list):
                out.append((s, tuple(doc_fingerprint(x, depth + 1) for x in v)))
            else:
                out.append((s, doc_fingerprint(v, depth + 1) if isinstance(v, Doc) else repr(v) if not callable(v) else 'fn'))
    return tuple(out)


def constants_fingerprint():
    fp = {}
    for modname, mod in list(sys.modules.items()):
        if not modname.startswith('prettyprinter'):
            continue
        for attr, val in list(vars(mod).items()):
            if isinstance(val, Doc):
                fp[modname + '.' + attr] = doc_fingerprint(val)
    return fp


def global_state():
    return {'deferred': sorted(ppm._DEFERRED_DISPATCH_BY_NAME), 'structseq_cache': sorted(c.__name__ for c in getattr(ppm, '_cnamedtuple_fieldnames_by_class', ())),
            'registry_size': len(ppm.pretty_dispatch.registry), 'predicates': len(ppm._PREDICATE_REGISTRY)}


CORPUS = None


def print_entry(i):
    name, value, cfg = CORPUS[i]
    before = snapshot(value)
    M.take_warnings()
    try:
        text = prettyprinter.pformat(value, **cfg)
    except Exception as e:
        text = 'RAISED %r' % (e,)
    M.take_warnings()
    after = snapshot(value)
    return text, before == after


def reference_child(arg):
    i, ops = arg
    for op in ops:
        OPS[op]()
    return print_entry(i)


def history_child(order):
    """prints the corpus entries in `order`; returns texts, mutation flags, state transitions, constants ok"""
    fp0 = constants_fingerprint()
    g0 = global_state()
    texts, mutated = [], []
    for i in order:
        if isinstance(i, str):
            OPS[i]()
            texts.append(None)
            mutated.append(False)
            continue
        t, same = print_entry(i)
        texts.append(t)
        mutated.append(not same)
    fp1 = constants_fingerprint()
    changed = [k for k in fp0 if fp0[k] != fp1.get(k)] + [k for k in fp1 if k not in fp0]
    return texts, mutated, g0, global_state(), changed


def run_shard(sh):
    global CORPUS
    quick = sh.tier == 'quick'
    M.install_warning_recorder()
    CORPUS = build_corpus(quick)
    n = len(CORPUS)
    names = [c[0] for c in CORPUS]
    refs = {}

    def ref(i, ops=()):
        key = (i, tuple(ops))
        if key not in refs:
            status, res = fork_call(reference_child, (i, tuple(ops)), timeout=120)
            if status != 'ok':
                sh.inconclusive.append('reference child for %s: %s %s' % (names[i], status, str(res)[:200]))
                refs[key] = None
            else:
                refs[key] = res[0]
                if not res[1]:
                    sh.violation('input-mutated', 'printing %s (first call in a fresh process) modified the value' % names[i], {'history': [names[i]], 'position': 0})
                sh.counters['reference prints (value printed first in a fresh fork)'] += 1
        return refs[key]

    idx_of = {nm: i for i, nm in enumerate(names)}
    adversarial = [
        ['subclass-before-base', 'builtin-0', 'subclass-before-base'],
        ['uuid-nested', 'uuid', 'enum-nested', 'enum', 'purepath-windows', 'purepath'],
        ['failing', 'failing-nested'] + names[:10] + ['failing'],
        ['hostile-struct_time', 'gmtime', 'gmtime-nested', 'hostile-struct_time-2', 'gmtime'],
        ['gmtime', 'hostile-struct_time', 'gmtime', 'stat_result', 'sys.flags', 'version_info'],
        ['cyclic-list', 'shared', 'cyclic-dict', 'cyclic-list', 'shared'],
        ['commented-dict', 'commented', 'commented-top', 'commented-dict'],
        ['abort-container', 'op:arm-abort', 'abort-container', 'abort-top', 'op:disarm-abort', 'abort-container', 'abort-top', 'builtin-0', 'abort-container'],
        ['op:arm-abort', 'abort-top', 'abort-container', 'op:disarm-abort', 'abort-container', 'shared', 'abort-top'],
        ['event-full', 'event-empty', 'event-mixed', 'event-empty', 'event-full'],
        ['event-mixed', 'event-full', 'event-empty'],
        ['square', 'square', 'polygon', 'square', 'shape', 'square'],
        ['shape', 'square', 'polygon', 'square'],
        ['mpoint', 'mrec', 'mpoint', 'mmap', 'mlist-nested'],
        ['mmap', 'mlist-nested', 'mpoint', 'mrec', 'mmap', 'mlist-nested', 'mpoint'],
        list(reversed(names)),
        names + names,
        ['sometimes-good', 'sometimes-bad', 'sometimes-good', 'sometimes-good-nested', 'sometimes-bad', 'sometimes-good'],
        ['hsub', 'op:register-HBase-by-name', 'hsub', 'hother-nested', 'hbase', 'hsub'],
        ['hsub', 'hbase', 'op:register-HBase-by-name', 'hother-nested', 'hsub', 'op:register-HSub-by-class', 'hsub', 'hbase', 'hother-nested'],
        ['hother-nested', 'op:register-HSub-by-class', 'hsub', 'op:register-HBase-by-name', 'hsub', 'hother-nested'],
        ['builtin-0', 'commented', 'op:set-default-width-30', 'builtin-0', 'commented', 'long-string'],
    ]
    H = 48 if quick else 600
    plen = 300 if quick else 800
    jobs = []
    for a in adversarial:
        jobs.append(('adversarial', [x if x.startswith('op:') else idx_of[x] for x in a]))
    for h in range(H):
        rng = V.rng_for('c19h', sh.seed, h)
        jobs.append(('random', [rng.randrange(n) for _ in range(plen)]))
    for j, (kind, order) in enumerate(jobs):
        if not sh.mine(j):
            continue
        status, res = fork_call(history_child, order, timeout=900)
        if status != 'ok':
            sh.inconclusive.append('history %d: %s %s' % (j, status, str(res)[:300]))
            continue
        texts, mutated, g0, g1, changed = res
        label = lambda k: k if isinstance(k, str) else names[k]
        if changed:
            sh.violation('shared-constant-mutated', 'module-level document constants changed during a history: %r' % changed[:5], {'history': [label(i) for i in order][:50], 'position': None})
        applied = []
        for pos, i in enumerate(order):
            if isinstance(i, str):
                applied.append(i)
                continue
            want = ref(i, applied)
            if want is None:
                continue
            case = {'history': [label(k) for k in order[:pos + 1]][-40:], 'position': pos, 'entry': names[i]}
            if texts[pos] != want:
                key = 'history-dependent-output'
                if names[i].startswith(('gmtime', 'stat_result', 'sys.flags', 'version_info')) and any(label(k).startswith('hostile') for k in order[:pos]):
                    key = 'struct-sequence-cache-poisoned'
                sh.violation(key, 'entry %s printed at position %d gives %r, but %r when printed first in a fresh process' % (names[i], pos, texts[pos][:300], want[:300]), case)
            else:
                sh.counters['prints equal to their first-in-fresh-process text'] += 1
            if mutated[pos]:
                sh.violation('input-mutated', 'printing %s modified the value or something reachable from it' % names[i], case)
            sh.case((j, pos, i), nontrivial=pos > 0)
        sh.counters['histories (%s)' % kind] += 1
        sh.counters['deferred printers promoted during histories'] += len(g0['deferred']) - len(g1['deferred'])
        sh.counters['struct-sequence cache entries created during histories'] += len(g1['structseq_cache']) - len(g0['structseq_cache'])
        sh.counters['input snapshots compared'] += len(order)
        for nm in g1['structseq_cache']:
            sh.see('struct sequence classes cached', nm)
        for nm in set(g0['deferred']) - set(g1['deferred']):
            sh.see('deferred printers promoted', nm)
        if j % 10 == 0:
            sh.sample({'history kind': kind, 'order (first 12)': [label(i) for i in order[:12]], 'length': len(order)})
    sh.notes['corpus size'] = n


def finalize(m):
    for name in ('prints equal to their first-in-fresh-process text', 'reference prints (value printed first in a fresh fork)', 'input snapshots compared',
                 'deferred printers promoted during histories'):
        if not m.counters.get(name):
            m.inconclusive.append('monitor never reached: ' + name)


def replay(wit):
    global CORPUS
    M.install_warning_recorder()
    CORPUS = build_corpus(wit.get('tier', 'quick') == 'quick')
    names = [c[0] for c in CORPUS]
    c = wit['case']
    order = [x if x.startswith('op:') else names.index(x) for x in c['history'] if x in names or x.startswith('op:')]
    print('history:', c['history'])
    status, res = fork_call(history_child, order, timeout=300)
    if status != 'ok':
        print('child failed', status, res)
        return False
    texts, mutated, g0, g1, changed = res
    ok = True
    applied = []
    for pos, i in enumerate(order):
        if isinstance(i, str):
            applied.append(i)
            continue
        st, r = fork_call(reference_child, (i, tuple(applied)), timeout=60)
        if st == 'ok' and r[0] != texts[pos]:
            print('VIOLATED history-dependent-output: %s at position %d:\n%s\n-- but printed first in a fresh process:\n%s' % (names[i], pos, texts[pos][:500], r[0][:500]))
            ok = False
        if mutated[pos]:
            print('VIOLATED input-mutated by printing', names[i])
            ok = False
    if changed:
        print('VIOLATED shared-constant-mutated', changed)
        ok = False
    if ok:
        print('holds on this case')
    return ok


LEVEL = 'exploration'
TECHNIQUE = 'runtime differential oracle across call histories in forked interpreters (first-print reference vs warm state) + deep input snapshots + fingerprint monitor on shared module-level documents'
LEVEL_TEXT = ('Every corpus entry is printed first in a fresh fork of a pristine interpreter; then random and adversarial call histories (each in its own fork) must reproduce exactly those texts at every position, '
              'the object graph of every input must be unchanged by every call, and the shared module-level document constants must be unchanged by every history.')
LEVEL_NOTE = 'Corpus and histories are samples (quick: ~270 entries incl. systematic confusable families, 60 histories of up to 300 calls, some with registration / configuration operations or a print that raises between prints); fork preserves ids so texts containing ids are comparable.'
