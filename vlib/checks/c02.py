"""C02 - string and bytes literals are reproduced exactly, however they are split.

Outside oracle: the output is parsed; the Constant at the value's position must equal the value with the
same type; every STRING token of the output (only the value contributes strings) is non-empty unless the
value is empty (then exactly one token), carries the b prefix for bytes, and the tokens concatenate to the value.
Inside oracle: contracts on the real str_to_lines / escape_str_for_quote (monitors.py), plus str_to_lines
driven directly with max_len 1..12 under a line-event budget (termination).
"""
import ast
import collections
import io
import itertools
import tokenize

from .. import monitors as M
from .. import values as V

RULE = ('all strings of length 0..L over {\' " \\ space newline a e-acute NUL} (and as latin-1 bytes), derived long strings '
        '(repetitions with and without break opportunities) and random long unicode/binary, each in 6 placement contexts x widths; '
        'a case is (value, context, width); non-trivial = value needs escaping, is empty, or was printed as more than one literal')
ASSUMPTIONS = ['CPython tokenize/ast agree with the interpreter on what a string literal denotes']
ALPHABET = ["'", '"', '\\', ' ', '\n', 'a', '\xe9', '\x00']
NT = collections.namedtuple('NT', 'a b')
CONTEXTS = ['top', 'sole', 'among', 'dictkey', 'dictvalue', 'callarg']


def place(ctx, s):
    if ctx == 'top':
        return s
    if ctx == 'sole':
        return [s]
    if ctx == 'among':
        return [0, s, 1]
    if ctx == 'dictkey':
        return {s: 0}
    if ctx == 'dictvalue':
        return {0: s}
    if ctx == 'callarg':
        return NT(a=s, b=0)
    raise ValueError(ctx)


def locate(ctx, body):
    if ctx == 'top':
        return body
    if ctx == 'sole':
        return body.elts[0]
    if ctx == 'among':
        return body.elts[1]
    if ctx == 'dictkey':
        return body.keys[0]
    if ctx == 'dictvalue':
        return body.values[0]
    if ctx == 'callarg':
        return body.keywords[0].value


def string_tokens(text):
    toks = []
    for tok in tokenize.generate_tokens(io.StringIO('(' + text + '\n)').readline):
        if tok.type == tokenize.STRING:
            toks.append(tok.string)
    return toks


def judge(sh, s, ctx, width, text, case):
    try:
        tree = ast.parse('(' + text + '\n)', mode='eval')
    except SyntaxError as e:
        sh.violation('not-parseable' + ('-empty-value' if len(s) == 0 else ''), 'output is not an expression: %r; output=%r' % (e, text[:200]), case)
        return None
    try:
        node = locate(ctx, tree.body)
    except (AttributeError, IndexError) as e:
        sh.violation('position-missing' + ('-empty-value' if len(s) == 0 else ''), 'the position of the value does not exist in the output: %r' % text[:200], case)
        return None
    if not isinstance(node, ast.Constant) or not isinstance(node.value, (str, bytes)):
        sh.violation('position-not-a-literal' + ('-empty-value' if len(s) == 0 else ''), 'no string literal at the value position: %r' % text[:200], case)
        return None
    if type(node.value) is not type(s):
        sh.violation('type-mismatch', 'literal has type %s, value has %s' % (type(node.value).__name__, type(s).__name__), case)
        return None
    if node.value != s:
        sh.violation('literal-mismatch', 'literal evaluates to %r, value is %r; output=%r' % (node.value, s, text[:300]), case)
        return None
    toks = string_tokens(text)
    parts = [ast.literal_eval(t) for t in toks]
    empty = type(s)()
    if empty.join(parts) != s:
        sh.violation('token-concat-mismatch', 'STRING tokens concatenate to %r, value %r' % (empty.join(parts), s), case)
    if isinstance(s, bytes) and not all(t[:1] in 'bB' for t in toks):
        sh.violation('missing-b-prefix', 'a piece of a bytes literal lacks the prefix: %r' % toks, case)
    if len(s) == 0:
        if len(toks) != 1:
            sh.violation('empty-value-token-count', 'empty value printed as %d literals' % len(toks), case)
    elif any(len(p) == 0 for p in parts):
        sh.violation('empty-piece', 'an empty literal piece in %r' % toks, case)
    return toks


def check_print(sh, s, ctx, width, extra_cfg=None):
    case = {'value': s if isinstance(s, str) else {'bytes': s.decode('latin-1')}, 'context': ctx, 'width': width,
            'cfg': extra_cfg or {}}
    cfg = {'width': width, 'ribbon_width': width}
    cfg.update(extra_cfg or {})
    toks = None
    text = None
    try:
        text, ws = M.pp(place(ctx, s), **cfg)
    except M.ContractViolation as e:
        sh.violation(e.key, e.what, dict(case, detail=e.detail))
    except M.StepBudgetExceeded as e:
        sh.violation('str_to_lines-nontermination', str(e), case)
    except Exception as e:
        sh.violation('pformat-raised', 'pformat raised %r' % (e,), case)
    else:
        if ws:
            sh.violation('fallback-warning' if M.fallback_warnings(ws) else 'unexpected-warning', ws[0][1][:300], case)
        else:
            toks = judge(sh, s, ctx, width, text, case)
    plain = s.isascii() and s.isalnum() if isinstance(s, str) else s.isalnum()
    nontriv = (not plain) or (toks is not None and len(toks) > 1)
    sh.case((repr(s), ctx, width, sorted((extra_cfg or {}).items())), nontriv)
    if toks is not None:
        sh.counters['prints with %s literal piece(s)' % ('1' if len(toks) == 1 else '>1')] += 1
        if len(toks) > 1:
            sh.counters['split in context ' + ctx] += 1
            q = set(t.lstrip('bB')[0] for t in toks)
            sh.see('quote styles in split literals', ''.join(sorted(q)))
        else:
            sh.see('quote styles in single literals', toks[0].lstrip('bB')[0])
    return text


def drive_splitter(sh, s):
    """str_to_lines directly, 'however little width is left' (contracts + budget are in the wrapper)."""
    for max_len in range(1, 13):
        for q in ("'", '"'):
            try:
                pieces = list(M.ppm.str_to_lines(max_len, q, s))
            except M.ContractViolation as e:
                sh.violation(e.key, e.what, {'direct': True, 'detail': e.detail})
                continue
            except M.StepBudgetExceeded as e:
                sh.violation('str_to_lines-nontermination', str(e), {'direct': True, 's': repr(s), 'max_len': max_len, 'q': q})
                continue
            except Exception as e:
                sh.violation('str_to_lines-raised', repr(e), {'direct': True, 's': repr(s), 'max_len': max_len, 'q': q})
                continue
            sh.counters['direct str_to_lines calls'] += 1
            if len(pieces) > 1:
                sh.counters['direct str_to_lines calls that split'] += 1


def short_strings(L):
    for n in range(L + 1):
        for tup in itertools.product(ALPHABET, repeat=n):
            yield ''.join(tup)


def long_strings():
    units = [u for u in short_strings(2) if u]
    for u in units:
        yield (u + 'ab') * 8
        yield u * 15
        yield ('word' + u) * 7
        yield 'x' * 11 + u + 'y' * 11
    yield 'a' * 100
    # whitespace-only, control characters, astral / surrogate characters, high bytes next to quotes
    yield ' ' * 100
    yield '\t' * 60
    yield ' \n' * 40
    yield 'line one\r\nline two\r\n' * 5
    yield 'word\x7fword\x0cword\x1b[0m ' * 6
    yield 'emoji \U0001f600 and \U00010000 astral ' * 5
    yield 'lone \ud800 surrogate \udfff here ' * 5
    yield "caf\xe9's \xff\"quoted\xfe\" " * 6
    yield 'x' * 9 + ' ' + 'y' * 10 + ' ' + 'z' * 11 + ' ' + 'w' * 68
    yield ('ab' * 5 + ' ') * 12
    yield "\\' \\\" " * 15
    yield 'lorem ipsum dolor sit amet ' * 4
    yield "it's " * 12
    yield 'say "hi" ' * 9
    yield '\\' * 40
    yield '/usr/local/lib/python3/site-packages/' * 3
    yield 'a-b.c_d:e;f' * 6
    # characters with structure of their own: stacks of combining marks on one base letter ("Zalgo" text), joiners, variation selectors, bidi marks -
    # a splitter that tries to keep such clusters together must still make progress when a cluster is longer than a line
    for k in (1, 3, 8, 12, 20, 40, 80, 200):
        yield ('e' + '\u0301' * k + ' ') * 3 + 'tail'
        yield 'Z' + '\u0308\u0323\u20dd' * k
    yield 'a\u200db\u200dc\u200d' * 12
    yield '\U0001f469\u200d\U0001f469\u200d\U0001f467 ' * 8
    yield 'x\ufe0f\u20e3' * 20
    yield '\u202eright to left\u202c \u05d0\u05d1\u05d2 ' * 5
    yield '\u0301\u0301\u0301 starts with marks ' * 4


def mixed_quote_strings():
    """the quote is chosen for the whole string but every piece is escaped on its own: pieces whose own repr would
    pick the other quote, next to backslashes, are where the re-escaping branches run"""
    tails = ["it's", "\\'x", "'\\", "\\\\'", "a'b'c", "'", "''", "\\n'", "é'"]
    heads = ['say "hi"', '"', '""', '\\"q\\"', 'x"y']
    for h in heads:
        for t in tails:
            yield (h + ' ') * 6 + 'middle words here ' + (t + ' ') * 4 + 'tail words to make it long enough'
            yield (t + ' ') * 5 + 'and then ' + (h + ' ') * 7 + 'zzzz ' * 6
            yield 'k' * 12 + h + 'm' * 14 + t + 'n' * 15 + t + 'p' * 11 + h


WIDTHS_QUICK = [1, 2, 3, 4, 6, 8, 10, 12, 14, 17, 20, 24, 40, 79]


def run_shard(sh):
    M.install_warning_recorder()
    M.install_string_contracts()
    quick = sh.tier == 'quick'
    L = 3 if quick else 5
    idx = 0
    for text in short_strings(L):
        for as_bytes in (False, True):
            idx += 1
            if not sh.mine(idx):
                continue
            s = text.encode('latin-1') if as_bytes else text
            rng = V.rng_for('c02s', sh.seed, idx)
            if quick or len(text) >= 4:
                widths = rng.sample(WIDTHS_QUICK, 3 if len(text) >= 4 else 5) + [len(repr(s)) - 1, len(repr(s)) + 1]
            else:
                widths = list(range(1, 25)) + [40, 79, rng.randint(25, 200)]
            for ctx in CONTEXTS:
                for w in widths:
                    if w >= 1:
                        check_print(sh, s, ctx, w)
            if len(text) <= 3:
                drive_splitter(sh, s)
            if idx % 300 == 0:
                sh.sample({'value': repr(s), 'contexts': CONTEXTS, 'widths': widths})
    for text in itertools.chain(long_strings(), mixed_quote_strings()):
        for as_bytes in (False, True):
            idx += 1
            if not sh.mine(idx):
                continue
            s = text.encode('latin-1', 'replace') if as_bytes else text
            rng = V.rng_for('c02l', sh.seed, idx)
            widths = (rng.sample(range(1, 25), 6) + [30, 40, 79, len(text) + 1, len(text) + 3]) if quick else list(range(1, 41)) + [60, 79, 120, len(text) + 1, len(text) + 2, len(text) + 3]
            for ctx in CONTEXTS:
                for w in widths:
                    check_print(sh, s, ctx, w, {'indent': rng.choice([1, 2, 4, 8])} if w % 3 == 0 else None)
            drive_splitter(sh, s)
            if idx % 40 == 0:
                sh.sample({'value': repr(s)[:80], 'kind': 'long'})
    # very long strings: every residue of the length modulo the line capacity, around the sizes where a "bulk" code path would plausibly start
    # (a seeded change cut words of >= 1000 characters in one pass and duplicated the word when its length was an exact multiple of the capacity)
    for base in ((255, 500, 1000, 2000, 4096) if quick else (255, 500, 1000, 2000, 2048, 4096, 5000, 8192, 10000, 65536)):
        for w in ((30, 66) if quick else (12, 30, 66, 79, 120)):
            for L_ in range(base, base + w + 2):
                idx += 1
                if not sh.mine(idx):
                    continue
                rng = V.rng_for('c02big', sh.seed, idx)
                unit = rng.choice(['ab', '0123456789abcdef', 'x', "it's", 'é', 'a\\', 'word ', '\n'])
                text = (unit * (L_ // len(unit) + 1))[:L_]
                if rng.random() < 0.25:
                    text = 'some words first ' + text + ' and a tail'
                s = text.encode('latin-1', 'replace') if rng.random() < 0.4 else text
                for ctx in (CONTEXTS if L_ % 3 == 0 else rng.sample(CONTEXTS, 2)):
                    check_print(sh, s, ctx, w, {'indent': rng.choice([1, 4])} if L_ % 5 == 0 else None)
                sh.counters['very long strings (>= 255 characters, all length residues)'] += 1
    nrand = 600 if quick else 20000
    for i in range(nrand):
        idx += 1
        if not sh.mine(idx):
            continue
        rng = V.rng_for('c02r', sh.seed, i)
        n = rng.choice([5, 12, 30, 80, 200, 400])
        if rng.random() < 0.5:
            pool = rng.choice([
                [chr(rng.randrange(0x20, 0x7f)) for _ in range(20)] + [' ', ' ', '\n'],
                [chr(rng.choice([rng.randrange(0, 0x20), rng.randrange(0x80, 0x100), rng.randrange(0x100, 0xd800),
                                 rng.randrange(0xe000, 0x10000), rng.randrange(0x10000, 0x110000)])) for _ in range(30)] + [' ', "'", '"', '\\'],
                list('abc \'"\\\t\r\n\x0b\x0c\x1c\x85 \xa0'),
            ])
            s = ''.join(rng.choice(pool) for _ in range(rng.randint(0, n)))
        else:
            s = bytes(rng.choice([rng.randrange(256), 32, 39, 34, 92, 97]) for _ in range(rng.randint(0, n)))
        for ctx in (CONTEXTS if quick else CONTEXTS):
            for w in [rng.randint(1, 24), rng.randint(1, 200), 79]:
                check_print(sh, s, ctx, w, {'ribbon_width': rng.randint(1, 200), 'indent': rng.randint(1, 8)})
        if rng.random() < 0.2:
            drive_splitter(sh, s)
    for k, v in M.COUNTS.items():
        sh.counters['contract calls: ' + k] += v


def finalize(m):
    need = ['contract calls: str_to_lines', 'contract calls: escape_str_for_quote', 'prints with >1 literal piece(s)',
            'direct str_to_lines calls that split'] + ['split in context ' + c for c in CONTEXTS]
    for name in need:
        if not m.counters.get(name):
            m.inconclusive.append('monitor never reached: ' + name)


def replay(wit):
    M.install_warning_recorder()
    M.install_string_contracts()
    from ..runner import Shard
    sh = Shard('replay', 0, 0, 1)
    c = wit['case']
    if c.get('direct'):
        d = c.get('detail') or c
        print('direct str_to_lines witness:', d)
        s = ast.literal_eval(d['s'])
        drive_splitter(sh, s)
    else:
        s = c['value']
        if isinstance(s, dict):
            s = s['bytes'].encode('latin-1')
        print('value=%r context=%s width=%s cfg=%s' % (s, c['context'], c['width'], c.get('cfg')))
        text = check_print(sh, s, c['context'], c['width'], c.get('cfg') or None)
        print('output:', repr(text))
    for v in sh.violations:
        print('VIOLATED', v['key'], v['what'][:500])
    if not sh.violations:
        print('holds on this case')
    return not sh.violations


LEVEL = 'exploration'
TECHNIQUE = 'runtime contracts on the real str_to_lines/escape_str_for_quote plus tokenize/ast oracle on the printed literal, exhaustive short strings x contexts x widths'
LEVEL_TEXT = ('All strings up to length 3 (thorough 5) over an 8-character adversarial alphabet, as str and bytes, derived long strings and random unicode/binary '
              '(incl. strings of 255 .. 65536 characters at every length residue modulo the line capacity, and stacks of combining marks / joiners / bidi marks) are printed in six placement contexts at widths from 1 up; the literal found at the position must equal the value and every piece is inspected. '
              'Post-conditions run on every real call of the splitter/escaper, with a line-event budget as bounded restatement of termination.')
LEVEL_NOTE = 'Trusts tokenize/ast; widths are exhaustive 1..24 only in the thorough tier, sampled otherwise; long strings are sampled.'
ANCHORS = ['prettyprinter.pretty_str', 'prettyprinter.str_to_lines', 'prettyprinter.escape_str_for_quote', 'prettyprinter.determine_quote_strategy', 'prettyprinter.pretty_single_line_str', 'prettyprinter.highlight_escapes']
