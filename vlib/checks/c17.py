"""C17 - call-style printers show exactly the constructor call.

Part A (pretty_call / pretty_call_alt): a holder type whose registered printer forwards (callable, args, kwargs) to the real
pretty_call/pretty_call_alt in all four calling conventions. Oracle: the output's AST is Call(func=<module.qualname>, positional
arguments in order, keywords in the order given) and each argument's subtree equals the AST of that argument printed on its own;
evaluating the text with a recording callable in scope performs exactly that call.
Part B (dataclasses / attrs extras): generated class definitions; the printed keywords must be exactly the repr-enabled fields that
differ from their default (or have none), in declaration order; evaluation reconstructs an equal instance.
"""
import ast
import collections
import dataclasses
import itertools
import types

import attr
import prettyprinter
from prettyprinter import pretty_call, pretty_call_alt, register_pretty

from .. import monitors as M
from .. import values as V

RULE = ('A: random (callable identity, args 0..5, kwargs 0..5) incl. hugged sole list/dict/tuple argument, commented arguments, nested calls, callables with builtin / __main__ / dotted '
        'modules and nested qualnames, passed as **kwargs, dict, OrderedDict and pair list; B: generated dataclass and attrs class definitions (0..6 fields: no default/default/factory/'
        'takes_self, repr on/off; frozen/slots/kw_only/eq variants) x instances with every subset of fields at their default; x layout configurations. '
        'Non-trivial = at least one argument or field (a bare "f()" is trivial); distinct by (definition, instance, configuration)')
ASSUMPTIONS = ['repr=False fields always have a default', 'init=False fields, attrs private names, repr=<callable> and defaults not equal to themselves are outside the generator (the rule and "reconstructs" contradict there)',
               'keyword names are valid non-keyword identifiers']

prettyprinter.install_extras(['dataclasses', 'attrs'])


class Holder:
    def __init__(self, fn, args, kwargs, style):
        self.fn, self.args, self.kwargs, self.style = fn, args, kwargs, style


@register_pretty(Holder)
def pretty_holder(h, ctx):
    if h.style == 'call' and not any(k in ('ctx', 'fn') for k, _ in h.kwargs):
        # (keyword arguments called 'ctx' / 'fn' cannot be passed through pretty_call's own signature: pretty_call_alt is the documented way)
        return pretty_call(ctx, h.fn, *h.args, **dict(h.kwargs))
    if h.style == 'alt-dict':
        return pretty_call_alt(ctx, h.fn, args=tuple(h.args), kwargs=dict(h.kwargs))
    if h.style == 'alt-odict':
        return pretty_call_alt(ctx, h.fn, args=tuple(h.args), kwargs=collections.OrderedDict(h.kwargs))
    if h.style == 'alt-odict-subclass':
        return pretty_call_alt(ctx, h.fn, args=tuple(h.args), kwargs=MyOD(h.kwargs))
    if h.style == 'alt-generator':
        return pretty_call_alt(ctx, h.fn, args=tuple(h.args), kwargs=((k, v) for k, v in h.kwargs))
    if h.style == 'alt-tuple-pairs':
        return pretty_call_alt(ctx, h.fn, args=list(h.args), kwargs=tuple(h.kwargs))
    return pretty_call_alt(ctx, h.fn, args=tuple(h.args), kwargs=list(h.kwargs))


class MyOD(collections.OrderedDict):
    pass


class DictSub(dict):
    pass


NT2 = collections.namedtuple('NT2', 'p q')
STYLES = ['call', 'alt-dict', 'alt-odict', 'alt-pairs', 'alt-odict-subclass', 'alt-generator', 'alt-tuple-pairs']


def make_callable(module, qualname):
    def f(*a, **k):
        return ('CALL', module, qualname, a, k)
    f.__module__ = module
    f.__qualname__ = qualname
    f.__name__ = qualname.rsplit('.', 1)[-1]
    return f


CALLABLE_IDS = [('builtins', 'sorted'), ('builtins', 'dict'), ('__main__', 'main_fn'), ('__main__', 'Outer.Inner'), ('pkg', 'f'), ('pkg.sub.mod', 'Cls'),
                ('pkg.sub.mod', 'Outer.Inner.deep'), ('a_very_long_package_name.with_a_long_module_name', 'AndALongClassName'),
                # same __name__ as another callable of the same module, different qualified name (Train.Config / Evaluate.Config)
                ('pkg.sub.mod', 'Other.Cls'), ('pkg.sub.mod', 'Outer.Inner.Cls'), ('pkg', 'Outer.f'), ('__main__', 'Inner'), ('__main__', 'Other.main_fn'),
                ('pkg', 'sorted')]
KWNAMES = ['a', 'b', 'zz', '_x', 'class_', 'é', 'value', 'a_rather_long_keyword_argument_name', 'k9', 'A',
           'fn', 'ctx', 'args', 'kwargs', 'type', 'doc', 'indent', 'fndoc', 'argdocs', 'kwargdocs', 'hug_sole_arg', 'trailing_comment', 'key', 'default', 'object', 'end']


def expected_name(module, qualname):
    return qualname if module in ('builtins', '__main__') else module + '.' + qualname


def recorder_namespace(ids):
    ns = {}
    for module, qualname in ids:
        rec = make_callable(module, qualname)
        path = expected_name(module, qualname).split('.')
        cur = ns
        for i, part in enumerate(path):
            last = i == len(path) - 1
            if isinstance(cur, dict):
                if last:
                    cur[part] = rec
                else:
                    cur = cur.setdefault(part, types.SimpleNamespace())
            else:
                if last:
                    setattr(cur, part, rec)
                else:
                    if not hasattr(cur, part):
                        setattr(cur, part, types.SimpleNamespace())
                    cur = getattr(cur, part)
    return ns


def dotted(n):
    if isinstance(n, ast.Name):
        return n.id
    if isinstance(n, ast.Attribute):
        b = dotted(n.value)
        return None if b is None else b + '.' + n.attr
    return None


def strip_value(v):
    """remove comment wrappers (values built from recipes may carry them)"""
    from prettyprinter.prettyprinter import _CommentedValue, _TrailingCommentedValue
    while isinstance(v, (_CommentedValue, _TrailingCommentedValue)):
        v = v.value
    return v


def arg_ast(value):
    text = prettyprinter.pformat(value, width=100000, ribbon_width=100000)
    return ast.dump(V.normalise_ast(ast.parse('(' + text + '\n)', mode='eval')).body)


def gen_arg(rng, depth=0):
    """returns (python value possibly comment-wrapped, canonical key for eval comparison or None)"""
    c = rng.random()
    if c < 0.12 and depth < 2:
        h, _ = gen_holder(rng, depth + 1)
        return h
    if c < 0.3:
        return prettyprinter.comment(V.build(V.rand_tree(rng, depth=2, budget=[4])), rng.choice(['note', 'two words', 'x #y', 'line1\nline2']))
    return V.build(V.rand_tree(rng, depth=2, budget=[rng.randint(1, 6)]))


# arguments of ONE call that are equal (== and hash) without being the same: each must be printed as it would be on its own
CONFUSABLE = [
    [(0, 0), (0.0, 0.0), (False, False), (0, 0.0), (-0.0, 0)],
    [(1, 0), (True, False), (1.0, 0.0), (1, False)],
    [frozenset([1]), frozenset([True]), frozenset([1.0])],
    [1, True, 1.0], [0, False, 0.0, -0.0],
    [(1, (2, 3)), (1.0, (2, 3.0)), (True, (2.0, 3))],
    ['a', 'a'], [(), ()], [b'k', b'k'],
]


def gen_holder(rng, depth=0):
    module, qualname = rng.choice(CALLABLE_IDS)
    fn = make_callable(module, qualname)
    mode = rng.random()
    if mode < 0.1:
        group_ = rng.choice(CONFUSABLE)
        picks = [rng.choice(group_) for _ in range(rng.randint(2, 5))]
        npos = rng.randint(0, len(picks))
        names = rng.sample(KWNAMES, len(picks) - npos)
        return Holder(fn, picks[:npos], list(zip(names, picks[npos:])), rng.choice(STYLES)), (module, qualname)
    if mode < 0.2:
        args = [rng.choice([[1, 2], {'k': 1}, (1, 2), [], {}, (), ['x' * 30, 'y' * 30, 'z' * 30], prettyprinter.comment([1, 2], 'hugged?'),
                            DictSub({'k': [1]}), NT2(1, [2]), {1, 2}, frozenset([1]), collections.OrderedDict([('a', 1)]), 'a plain string', 5])]
        kwargs = []
    else:
        args = [gen_arg(rng, depth) for _ in range(rng.choice([0, 0, 1, 1, 2, 3, 5]))]
        names = rng.sample(KWNAMES, rng.choice([0, 0, 1, 2, 3, 5]))
        kwargs = [(k, gen_arg(rng, depth)) for k in names]
    return Holder(fn, args, kwargs, rng.choice(STYLES)), (module, qualname)


def holder_desc(h):
    return {'fn': [h.fn.__module__, h.fn.__qualname__], 'style': h.style, 'args': [desc(a) for a in h.args], 'kwargs': [[k, desc(v)] for k, v in h.kwargs]}


def desc(v):
    v2 = strip_value(v)
    if isinstance(v2, Holder):
        return holder_desc(v2)
    return repr(v2)[:200] + ('  #commented' if v2 is not v else '')


def expect_call_ast(h):
    """ast.dump of the Call the holder must print as"""
    def one(v):
        v = strip_value(v)
        if isinstance(v, Holder):
            return expect_call_node(v)
        text = prettyprinter.pformat(v, width=100000, ribbon_width=100000)
        return V.normalise_ast(ast.parse('(' + text + '\n)', mode='eval')).body

    return ast.dump(expect_call_node(h))


def expect_call_node(h):
    def one(v):
        v = strip_value(v)
        if isinstance(v, Holder):
            return expect_call_node(v)
        text = prettyprinter.pformat(v, width=100000, ribbon_width=100000)
        return V.normalise_ast(ast.parse('(' + text + '\n)', mode='eval')).body
    name = expected_name(h.fn.__module__, h.fn.__qualname__)
    func = ast.parse(name, mode='eval').body
    return ast.Call(func=func, args=[one(a) for a in h.args], keywords=[ast.keyword(arg=k, value=one(v)) for k, v in h.kwargs])


def canon_call(x):
    if isinstance(x, tuple) and len(x) == 5 and x[0] == 'CALL':
        return ('CALL', x[1], x[2], tuple(canon_call(a) for a in x[3]), tuple((k, canon_call(v)) for k, v in x[4].items()))
    if isinstance(x, Holder):
        return ('CALL', x.fn.__module__, x.fn.__qualname__, tuple(canon_call(strip_value(a)) for a in x.args), tuple((k, canon_call(strip_value(v))) for k, v in x.kwargs))
    return V.canon(x)


def check_call(sh, h, cfg, case):
    M.take_warnings()
    try:
        text, ws = M.pp(h, **cfg)
    except M.MonitorAbort as e:
        sh.violation(getattr(e, 'key', 'monitor-abort'), str(e), case)
        return None
    except Exception as e:
        sh.violation('pformat-raised', repr(e), case)
        return None
    if ws:
        sh.violation('warning', ws[0][1][-300:], case)
        return text
    try:
        got = ast.dump(V.normalise_ast(ast.parse('(' + text + '\n)', mode='eval')).body)
    except SyntaxError as e:
        sh.violation('not-parseable', '%r: %r' % (e, text[:300]), case)
        return text
    want = expect_call_ast(h)
    if got != want:
        g = ast.parse('(' + text + '\n)', mode='eval').body
        key = 'call-shape'
        if isinstance(g, ast.Call):
            name = expected_name(h.fn.__module__, h.fn.__qualname__)
            if dotted(g.func) != name:
                key = 'callable-name'
            elif [k.arg for k in g.keywords] != [k for k, _ in h.kwargs]:
                key = 'keyword-order-or-names'
            elif len(g.args) != len(h.args):
                key = 'positional-count'
            else:
                key = 'argument-subtree'
        sh.violation(key, 'printed call differs from the call made: %r' % text[:400], case)
        return text
    ns = recorder_namespace(CALLABLE_IDS)
    ns['vlib'] = __import__('vlib')
    ns['collections'] = collections
    try:
        res = V.evaluate(text, ns)
    except Exception as e:
        sh.violation('eval-error', '%r: %r' % (e, text[:300]), case)
        return text
    if canon_call(res) != canon_call(h):
        sh.violation('eval-different-call', 'evaluation performs %r' % (res,), case)
        return text
    sh.counters['calls verified'] += 1
    if len(h.args) == 1 and not h.kwargs and type(strip_value(h.args[0])) in (list, dict, tuple):
        sh.counters['hugged sole argument calls verified'] += 1
    if '\n' in text:
        sh.counters['multi-line call outputs'] += 1
    sh.see('calling conventions', h.style)
    sh.see('callable identities', expected_name(h.fn.__module__, h.fn.__qualname__))
    return text


# --------------------------------------------------------------- part B
FIELD_VALUES = [False, '', 0, 1, 'a', 'lorem ipsum dolor sit amet, consectetur', None, [1, 2], {'k': [1]}, (1,), 2.5, 10 ** 12, ('nightly', 'linux')]
_defs = {}


def make_dc(spec):
    """spec: dict(name, fields=[(fname, kind, default, repr)], frozen, slots, kw_only, eq)"""
    fields = []
    for fname, kind, default, rep in spec['fields']:
        if kind == 'none':
            f = dataclasses.field(repr=rep)
        elif kind == 'default':
            f = dataclasses.field(default=default, repr=rep)
        else:
            f = dataclasses.field(default_factory=_factory(default), repr=rep)
        fields.append((fname, object, f))
    import typing
    if spec.get('classvar'):
        # pseudo-fields: never constructor arguments, never to be printed - also when the class attribute was changed later
        fields.append(('cv_counter', typing.ClassVar[int], dataclasses.field(default=0)))
        fields.append(('cv_label', typing.ClassVar[str], 'label'))
    cls = dataclasses.make_dataclass(spec['name'], fields, frozen=spec['frozen'], slots=spec['slots'], kw_only=spec['kw_only'], eq=spec['eq'])
    if spec.get('classvar') and not spec['slots']:
        cls.cv_counter = 7
    cls.__module__ = __name__
    globals()[spec['name']] = cls
    return cls


def _factory(default):
    import copy

    def factory():
        return copy.deepcopy(default)
    return factory


def make_attrs(spec):
    attrs_ = collections.OrderedDict()
    for fname, kind, default, rep in spec['fields']:
        if kind == 'none':
            attrs_[fname] = attr.ib(repr=rep)
        elif kind == 'default':
            attrs_[fname] = attr.ib(default=default, repr=rep)
        elif kind == 'factory':
            attrs_[fname] = attr.ib(default=attr.Factory(_factory(default)), repr=rep)
        else:
            d = default
            first = spec['fields'][0][0]
            if first != fname and spec['fields'][0][1] == 'none':
                # the default is DERIVED from another field of the same instance: differs from instance to instance
                attrs_[fname] = attr.ib(default=attr.Factory(lambda self, first=first: ('derived', getattr(self, first)), takes_self=True), repr=rep)
            else:
                attrs_[fname] = attr.ib(default=attr.Factory(lambda self, d=d: _factory(d)(), takes_self=True), repr=rep)
    cls = attr.make_class(spec['name'], attrs_, frozen=spec['frozen'], slots=spec['slots'], kw_only=spec['kw_only'], eq=spec['eq'])
    cls.__module__ = __name__
    globals()[spec['name']] = cls
    return cls


def gen_spec(rng, lib, uid):
    n = rng.choice([0, 1, 2, 3, 4, 6])
    kw_only = rng.random() < 0.25
    fields = []
    for i in range(n):
        kind = rng.choice(['none', 'default', 'factory'] + (['takes_self'] if lib == 'attrs' else []))
        default = rng.choice(FIELD_VALUES)
        if kind == 'default' and isinstance(default, (list, dict)):
            kind = 'factory'
        # a repr=False field without default could never be reconstructed from the printed call: outside the generator
        fields.append(('f%d' % i, kind, default, True if kind == 'none' else rng.random() < 0.75))
    _names = rng.sample(['fn', 'ctx', 'args', 'kwargs', 'value', 'type', 'doc', 'cls', 'field_def', 'attribute', 'display_attr', 'default_value', 'kwarg', 'instance'], n) if rng.random() < 0.3 else None
    if not kw_only:
        fields.sort(key=lambda f: f[1] != 'none')      # fields without default first
        fields = [('f%d' % i, k, d, r) for i, (_, k, d, r) in enumerate(fields)]
    if _names:
        fields = [(_names[i], k, d, r) for i, (_, k, d, r) in enumerate(fields)]
    return {'lib': lib, 'name': ('DC%d' if lib == 'dc' else 'AT%d') % uid, 'fields': fields, 'frozen': rng.random() < 0.3, 'classvar': lib == 'dc' and rng.random() < 0.4,
            'slots': rng.random() < 0.3, 'kw_only': kw_only, 'eq': rng.random() < 0.8}


def equal_copy(v):
    """an object equal to v but not identical to it (where the type allows)"""
    import copy
    if isinstance(v, str):
        return ''.join(list(v)) if len(v) > 1 else v
    if isinstance(v, float):
        return float(repr(v))
    if isinstance(v, tuple):
        return tuple(list(v))
    if isinstance(v, int) and not isinstance(v, bool):
        return int(str(v))
    return copy.deepcopy(v)


def instances(spec, cls, rng, quick):
    """every subset of fields at their default (sampled beyond 5 fields); non-default values drawn to differ from the default"""
    fs = spec['fields']
    defaultable = [i for i, f in enumerate(fs) if f[1] != 'none']
    subsets = list(itertools.chain.from_iterable(itertools.combinations(defaultable, r) for r in range(len(defaultable) + 1)))
    if len(subsets) > (8 if quick else 64):
        rng.shuffle(subsets)
        subsets = subsets[:(8 if quick else 64)]
    for at_default in subsets:
        kwargs = {}
        visible = []
        for i, (fname, kind, default, rep) in enumerate(fs):
            if i in at_default:
                if rng.random() < 0.35 and not (kind == 'takes_self' and fs[0][0] != fname and fs[0][1] == 'none'):
                    # pass the default explicitly as an equal but distinct object: still "does not differ from the default"
                    kwargs[fname] = equal_copy(default)
                continue
            val = rng.choice([v for v in FIELD_VALUES if v != default or kind == 'none'])
            kwargs[fname] = val
        inst = cls(**kwargs)
        for i, (fname, kind, default, rep) in enumerate(fs):
            if not rep:
                continue
            cur = getattr(inst, fname)
            dflt = default
            if kind == 'takes_self' and fs[0][0] != fname and fs[0][1] == 'none':
                dflt = ('derived', getattr(inst, fs[0][0]))
            if kind == 'none' or cur != dflt:
                visible.append(fname)
        yield inst, kwargs, visible


def check_instance(sh, spec, cls, inst, kwargs, visible, cfg):
    case = {'spec': spec, 'kwargs': {k: repr(v) for k, v in kwargs.items()}, 'cfg': cfg}
    try:
        text, ws = M.pp(inst, **cfg)
    except M.MonitorAbort as e:
        sh.violation(getattr(e, 'key', 'monitor-abort'), str(e), case)
        return
    except Exception as e:
        sh.violation('pformat-raised', repr(e), case)
        return
    if ws:
        sh.violation('warning', ws[0][1][-300:], case)
        return
    try:
        node = ast.parse('(' + text + '\n)', mode='eval').body
    except SyntaxError as e:
        sh.violation('not-parseable', '%r: %r' % (e, text[:300]), case)
        return
    want_name = __name__ + '.' + spec['name']
    if not isinstance(node, ast.Call) or dotted(node.func) != want_name or node.args:
        sh.violation('not-the-constructor-call', 'expected %s(...) with keywords only: %r' % (want_name, text[:300]), case)
        return
    names = [k.arg for k in node.keywords]
    if names != visible:
        key = 'field-selection'
        if sorted(names) == sorted(visible):
            key = 'field-order'
        sh.violation(key + ':' + spec['lib'], 'printed fields %r, expected %r: %r' % (names, visible, text[:300]), case)
        return
    for k in node.keywords:
        if ast.dump(V.normalise_ast(k.value)) != arg_ast(getattr(inst, k.arg)):
            sh.violation('field-value-subtree', 'field %s is not printed as on its own: %r' % (k.arg, text[:300]), case)
            return
    try:
        back = V.evaluate(text, {'vlib': __import__('vlib')})
    except Exception as e:
        sh.violation('eval-error:' + spec['lib'], '%r: %r' % (e, text[:300]), case)
        return
    if type(back) is not cls:
        sh.violation('type-changed', repr(type(back)), case)
        return
    hidden_nondefault = any((not rep) and fname in kwargs for fname, kind, default, rep in spec['fields'])
    cmp_fields = [f[0] for f in spec['fields'] if f[3] or not hidden_nondefault]
    if any(V.canon(getattr(back, f)) != V.canon(getattr(inst, f)) for f in cmp_fields if not (hidden_nondefault and f not in visible and not [x for x in spec['fields'] if x[0] == f][0][3])):
        sh.violation('not-reconstructed:' + spec['lib'], 'fields differ after evaluation: %r' % text[:300], case)
        return
    if spec['eq'] and not hidden_nondefault and back != inst:
        sh.violation('not-equal:' + spec['lib'], 'reconstructed instance != original: %r' % text[:300], case)
        return
    sh.counters['instances verified (%s)' % spec['lib']] += 1
    if len(visible) < sum(1 for f in spec['fields'] if f[3]):
        sh.counters['instances with omitted default fields'] += 1
    if any(not f[3] for f in spec['fields']):
        sh.counters['instances of classes with repr=False fields'] += 1


def cfg_for(rng):
    return rng.choice([{}, {'width': 20}, {'width': 1, 'indent': 2}, {'width': 40, 'ribbon_width': 10, 'indent': 8}, {'width': rng.randint(1, 200), 'ribbon_width': rng.randint(1, 200), 'indent': rng.randint(1, 8)}])


def late_install_child(arg):
    """in a forked child: the extras are installed only AFTER an instance of the class has been printed (with the predicate registry emptied the
    package is in the state it has before install_extras): returns (text before, text after)"""
    spec, kwargs_list, cfg = arg
    M.install_warning_recorder()
    del M.ppm._PREDICATE_REGISTRY[:]
    cls = make_dc(spec) if spec['lib'] == 'dc' else make_attrs(spec)
    out = []
    insts = [cls(**kw) for kw in kwargs_list]
    before = [M.pp(x, **cfg)[0] for x in insts[:1]]
    prettyprinter.install_extras(['dataclasses', 'attrs'])
    after = [M.pp(x, **cfg)[0] for x in insts]
    return before, after


def late_install(sh, spec, cls, cases, cfg, origin=None):
    from ..runner import fork_call
    kwargs_list = [kw for _, kw, _ in cases][:4]
    try:
        want = [M.pp(cls(**kw), **cfg)[0] for kw in kwargs_list]
    except Exception:
        return
    status, res = fork_call(late_install_child, (spec, kwargs_list, cfg), timeout=120)
    if status != 'ok':
        sh.inconclusive.append('late-install child: %s %s' % (status, str(res)[:200]))
        return
    before, after = res
    case = {'spec': spec, 'kwargs': [{k: repr(v) for k, v in kw.items()} for kw in kwargs_list], 'cfg': cfg, 'late_install': origin or True}
    if after != want:
        sh.violation('printed-before-install-differs-afterwards:' + spec['lib'], 'an instance printed once before install_extras() is printed as %r after the installation, '
                     'a process with the extras installed from the start prints %r' % ([a for a, w in zip(after, want) if a != w][0][:200], [w for a, w in zip(after, want) if a != w][0][:200]), case)
    else:
        sh.counters['classes first printed before install_extras, verified afterwards'] += 1


def run_shard(sh):
    M.install_warning_recorder()
    M.install_string_contracts()
    quick = sh.tier == 'quick'
    idx = 0
    for i in range(6000 if quick else 150000):
        idx += 1
        if not sh.mine(idx):
            continue
        rng = V.rng_for('c17a', sh.seed, i)
        h, _ = gen_holder(rng)
        cfg = cfg_for(rng)
        case = {'part': 'A', 'i': i, 'seed': sh.seed, 'holder': holder_desc(h), 'cfg': cfg}
        check_call(sh, h, cfg, case)
        sh.case((repr(holder_desc(h)), sorted(cfg.items())), nontrivial=bool(h.args or h.kwargs))
        if i % 2000 == 0:
            sh.sample({'call': holder_desc(h), 'cfg': cfg})
    for i in range(400 if quick else 8000):
        idx += 1
        if not sh.mine(idx):
            continue
        rng = V.rng_for('c17b', sh.seed, i)
        lib = 'dc' if i % 2 == 0 else 'attrs'
        spec = gen_spec(rng, lib, i)
        try:
            cls = make_dc(spec) if lib == 'dc' else make_attrs(spec)
        except (TypeError, ValueError) as e:
            sh.counters['class definitions rejected by the library'] += 1
            continue
        sh.counters['class definitions (%s)' % lib] += 1
        cases = list(instances(spec, cls, rng, quick))
        for inst, kwargs, visible in cases:
            cfg = cfg_for(rng)
            check_instance(sh, spec, cls, inst, kwargs, visible, cfg)
            sh.case((repr(spec), repr(sorted(kwargs.items(), key=repr)), sorted(cfg.items())), nontrivial=bool(spec['fields']))
        if i % 5 == 0 and cases:
            late_install(sh, spec, cls, cases, cfg_for(rng), {'i': i, 'seed': sh.seed, 'quick': quick})
        if i % 150 == 0:
            sh.sample({'class': spec})


def finalize(m):
    for name in ('calls verified', 'hugged sole argument calls verified', 'multi-line call outputs', 'instances verified (dc)', 'instances verified (attrs)',
                 'instances with omitted default fields', 'instances of classes with repr=False fields'):
        if not m.counters.get(name):
            m.inconclusive.append('monitor never reached: ' + name)
    if len(m.sets.get('calling conventions', ())) < 4:
        m.inconclusive.append('not all four calling conventions observed')


def replay(wit):
    M.install_warning_recorder()
    from ..runner import Shard
    sh = Shard('replay', 0, 0, 1)
    c = wit['case']
    if c.get('part') == 'A':
        rng = V.rng_for('c17a', c['seed'], c['i'])
        h, _ = gen_holder(rng)
        text = check_call(sh, h, c['cfg'], c)
        print('call   :', holder_desc(h))
        print('output :', text)
    elif isinstance(c.get('late_install'), dict):
        o = c['late_install']
        rng = V.rng_for('c17b', o['seed'], o['i'])
        lib = 'dc' if o['i'] % 2 == 0 else 'attrs'
        spec = gen_spec(rng, lib, o['i'])
        cls = make_dc(spec) if lib == 'dc' else make_attrs(spec)
        cases = list(instances(spec, cls, rng, o['quick']))
        for _ in cases:
            cfg_for(rng)
        late_install(sh, spec, cls, cases, c['cfg'])
        print('class', spec['name'], 'first printed before install_extras(), then after it')
    else:
        spec = c['spec']
        spec['fields'] = [tuple(f) for f in spec['fields']]
        cls = make_dc(spec) if spec['lib'] == 'dc' else make_attrs(spec)
        rng = V.rng_for('c17b', wit.get('seed', 0), int(spec['name'][2:]))
        gen_spec(rng, spec['lib'], int(spec['name'][2:]))
        for inst, kwargs, visible in instances(spec, cls, rng, wit.get('tier') == 'quick'):
            if {k: repr(v) for k, v in kwargs.items()} == c['kwargs']:
                check_instance(sh, spec, cls, inst, kwargs, visible, c['cfg'])
                print('instance:', inst, 'expected fields', visible)
                print('output  :', prettyprinter.pformat(inst, **c['cfg']))
                break
    for v in sh.violations:
        print('VIOLATED', v['key'], v['what'][:600])
    if not sh.violations:
        print('holds on this case')
    return not sh.violations


LEVEL = 'exploration'
TECHNIQUE = 'runtime oracle: AST of the printed call vs the call actually made (argument subtrees vs stand-alone prints) + evaluation with a recording callable; generated dataclass/attrs class definitions'
LEVEL_TEXT = ('Random calls through the real pretty_call/pretty_call_alt in all four calling conventions and generated dataclass/attrs class definitions with all default-subsets of instances '
              'are printed; the printed call must have exactly the callable name, positional and keyword arguments (in order) of the call made, every argument printed as on its own, '
              'and evaluation must perform that call / reconstruct the instance.')
LEVEL_NOTE = 'Random, not exhaustive, over call shapes and class definitions; exclusions listed in assumptions.'
ANCHORS = ['prettyprinter.pretty_call', 'prettyprinter.pretty_call_alt', 'prettyprinter.build_fncall', 'prettyprinter.general_identifier', 'dataclasses.pretty_dataclass_instance', 'attrs.pretty_attrs']
