"""C20 - concurrent printing from several threads is safe.

Monitor = deterministic scheduler (vlib/sched.py): threads are parked on semaphores, a sys.monitoring LINE callback hands the
baton over exactly where the policy says, so an interleaving is a function of the policy alone. Every schedule runs in a forked
child of a parent that has imported the package but printed nothing, so each schedule starts with the deferred registry intact.
Oracle: the per-thread results (text or exception) must equal the results of SOME sequential order of the same calls (computed in
forked children too); no call may raise; no warning that the sequential runs do not produce.
Exploration: all schedules with one preemption (thread A preempted before its k-th package line for every k, both role assignments),
two preemptions and random-priority schedules for three threads beyond that.
"""
import enum
import itertools
import os
import pathlib
import time
import uuid

import prettyprinter
from prettyprinter import comment, register_pretty

from .. import monitors as M
from .. import sched
from .. import values as V
from ..runner import fork_call

WATCHDOG = {'quick': 1500, 'thorough': 4 * 3600}
LEVEL = 'exploration'
RULE = ('scenarios of 2-3 threads doing first-use prints of lazily registered types (uuid.UUID alone/nested, Enum member, pure paths through a superclass, a harness-defined deferred class and its subclass), '
        'an uncached subclass dispatch against a registering print, struct sequences, and warm repeated prints of commented values and long strings; every schedule with ONE preemption at every package '
        'line boundary (both role assignments) exhaustively, two preemptions and three-thread random-priority schedules sampled (thorough: also switch points inside functools/weakref for all scenarios); '
        'a case is (scenario, schedule); non-trivial = the schedule actually preempted a thread (a switch happened before the thread finished)')
ASSUMPTIONS = ['switch points are line boundaries of Python code in the chosen files; interleavings inside one line or inside C code are not produced',
               'a lock found as a module global of the package is replaced by a cooperative lock with the same semantics']

PKG = M.PKG_DIR
import functools as _ft
import weakref as _wr
STDLIB_FILES = (_ft.__file__, _wr.__file__)

U = uuid.UUID(int=0x1234)


class Color(enum.Enum):
    RED = 1


class MyList(list):
    pass


class Base:
    def __init__(self, x=1):
        self.x = x


class Sub(Base):
    pass


@register_pretty(__name__ + '.Base')
def pretty_base(v, ctx):
    return prettyprinter.pretty_call(ctx, type(v), x=v.x)


LONG = 'lorem ipsum dolor sit amet ' * 5
COMMENTED = [comment(1, 'one'), comment({'k': comment([1, 2], 'inner')}, 'two words here')]

# scenario: name -> (list of thread programs [(value, cfg)...], files, warm-up first?)
SCENARIOS = {
    'S1-uuid-first-use': ([[(U, {})], [(U, {})]], (PKG,), False),
    'S1-uuid-nested': ([[([U], {})], [({'k': U}, {})]], (PKG,), False),
    'S2-enum-and-uuid': ([[(Color.RED, {})], [({'k': U}, {})]], (PKG,) + STDLIB_FILES, False),
    'S3-subclass-dispatch-vs-registration': ([[(MyList([1, 2]), {})], [(U, {})]], (PKG,) + STDLIB_FILES, False),
    'S4-struct-sequences': ([[(time.gmtime(0), {})], [(time.gmtime(86400), {})]], (PKG,), False),
    'S5-warm-comments-and-strings': ([[(COMMENTED, {'width': 30}), (LONG, {'width': 40})], [(LONG, {'width': 40}), (COMMENTED, {'width': 30})]], (PKG,), True),
    'S7-deferred-class-and-subclass': ([[(Sub(2), {})], [(Base(3), {})]], (PKG,) + STDLIB_FILES, False),
    'S8-paths-through-superclass': ([[(pathlib.PurePosixPath('/a/b'), {})], [([pathlib.PureWindowsPath('C:/x')], {})]], (PKG,), False),
    'S6-three-threads': ([[(U, {})], [(Color.RED, {}), ([U], {})], [(MyList([Color.RED]), {})]], (PKG,), False),
}


class Late:
    def __init__(self, x):
        self.x = x

    def __repr__(self):
        return '<Late %d>' % self.x


class LateSub(Late):
    pass


class Pred:
    def __repr__(self):
        return '<Pred>'


def _register_late():
    @register_pretty(Late)
    def pretty_late(v, ctx):
        return prettyprinter.pretty_call(ctx, type(v), v.x)
    return 'registered'


def _register_pred():
    @register_pretty(predicate=lambda v: isinstance(v, Pred))
    def pretty_pred(v, ctx):
        return 'Pred()'
    return 'registered'


def _narrow_defaults():
    prettyprinter.set_default_config(width=20, sort_dict_keys=True)
    return 'set'


def _replace_uuid_printer():
    @register_pretty(uuid.UUID)
    def short_uuid(v, ctx):
        return 'uuid:' + v.hex[:8]
    return 'registered'


class K1:
    """K1, K2, K3: printed through three PREDICATE printers registered when this module is imported (the list of predicates is shared state that
    every print of a value without a type printer walks)"""
    def __repr__(self):
        return '<fallback repr of %s>' % type(self).__name__


class K2(K1):
    pass


class K3(K1):
    pass


for _k in (K1, K2, K3):
    register_pretty(predicate=lambda v, _k=_k: type(v) is _k)(lambda v, ctx, _k=_k: prettyprinter.pretty_call(ctx, _k))


WIDE = {'b': [1, 2, 3, 4, 5, 6], 'a': 'some text here'}
SCENARIOS.update({
    'S15-predicate-printers-from-two-threads': ([[(K3(), {}), (K2(), {})], [(K2(), {}), (K3(), {})]], (PKG,), False),
    'S9-user-registers-class-while-other-prints-subclass': ([[('call', _register_late), (Late(1), {})], [(LateSub(2), {}), ([LateSub(3)], {})]], (PKG,) + STDLIB_FILES, False),
    'S10-user-registers-predicate-while-other-prints': ([[('call', _register_pred), (Pred(), {})], [([Pred()], {}), (U, {})]], (PKG,), False),
    'S14-user-replaces-a-printer-then-prints': ([[(U, {})], [('call', _replace_uuid_printer), (U, {}), ([U], {})]], (PKG,), False),
    'S13-set-default-config-while-other-prints': ([[('call', _narrow_defaults), (WIDE, {})], [(WIDE, {}), (WIDE, {})]], (PKG,), False),
})
import functools as _functools
import types as _types

PART = _functools.partial(int, '7', base=8)
MPROXY = _types.MappingProxyType({'a': 1})


def _query_uuid():
    return prettyprinter.is_registered(uuid.UUID, check_superclasses=True, check_deferred=True, register_deferred=False)


def _query_and_register_enum():
    return prettyprinter.is_registered(Color, check_superclasses=True, check_deferred=True, register_deferred=True)


class Reent:
    """no printer of its own; its __repr__ re-enters the package (as `__repr__ = pretty_repr` classes and logging helpers do)"""
    def __init__(self, payload):
        self.payload = payload

    def __repr__(self):
        return 'Reent(%s)' % prettyprinter.pformat(self.payload)


def _query_and_register_uuid():
    return prettyprinter.is_registered(uuid.UUID, check_superclasses=True, check_deferred=True, register_deferred=True)


SCENARIOS.update({
    # the public is_registered(..., register_deferred=True) promotes a pending by-name printer itself: racing with a first print of that type
    'S16-public-is_registered-promotes-while-other-prints': ([[('call', _query_and_register_enum), (Color.RED, {})], [([Color.RED], {}), (Color.RED, {})]], (PKG,) + STDLIB_FILES, False),
    'S18-repr-that-reenters-pformat-vs-first-print': ([[(Reent(U), {}), ([Reent([1, 2])], {})], [(U, {}), (Color.RED, {})]], (PKG,), False),
    # thread 0 wraps a short text while thread 1 wraps a text of 2100 DISTINCT words (any bounded memo of per-word measurements overflows meanwhile).
    # Heavy: thread 0 is preempted only inside the string-measuring functions (see HEAVY), not at every line.
    'S19-string-wrapping-vs-many-distinct-words': ([[('alpha beta gamma delta ' * 3, {'width': 20})], [(' '.join('w%d' % i for i in range(2100)), {'width': 40})]], (PKG,), False),
    'S17-public-is_registered-promotes-uuid-while-other-prints': ([[('call', _query_and_register_uuid)], [(U, {}), ([U], {})]], (PKG,), False),
})
OP_POOL = [
    (U, {}), ([U, U], {}), ({'k': U}, {'width': 20}), (Color.RED, {}), ([Color.RED], {}), (pathlib.PurePosixPath('/a/b c'), {}),
    (pathlib.PureWindowsPath('C:/x'), {}), (PART, {}), ([PART], {}), (MPROXY, {}), (MyList([1, U]), {}), (Sub(2), {}), (Base(3), {}),
    (K3(), {}), ([K2(), K3(), K1()], {}), (time.gmtime(0), {}), (LONG, {'width': 40}), (COMMENTED, {'width': 30}), (WIDE, {}), (Late(5), {}), (LateSub(6), {}), (Pred(), {}),
    ('call', _register_late), ('call', _register_pred), ('call', _narrow_defaults), ('call', _replace_uuid_printer), ('call', _query_uuid),
    ('call', _query_and_register_enum),
]
_RANDOM_CACHE = {}


def scenario(name):
    """fixed scenarios by name; 'R:<seed>:<i>' is a seeded random scenario (2 threads x 1-3 operations from OP_POOL)"""
    if name in SCENARIOS:
        return SCENARIOS[name]
    if name not in _RANDOM_CACHE:
        _, seed, i = name.split(':')
        rng = V.rng_for('c20rand', int(seed), int(i))
        progs = [[rng.choice(OP_POOL) for _ in range(rng.randint(1, 3))] for _ in range(2)]
        files = (PKG,) + STDLIB_FILES if rng.random() < 0.5 else (PKG,)
        _RANDOM_CACHE[name] = (progs, files, False)
    return _RANDOM_CACHE[name]


SHARED_STATE_FUNCS = {'_repr_pretty', 'is_registered', 'register_pretty', 'register_pretty.<locals>.decorator', 'pretty_python_value', '_is_registered',
                      'singledispatch.<locals>.dispatch', 'singledispatch.<locals>.register', 'singledispatch.<locals>.wrapper', '_find_impl', '_compose_mro'}


# scenarios whose second thread is expensive: only schedules that preempt thread 0 inside these functions (module-level state of the string printers)
HEAVY = {'S19-string-wrapping-vs-many-distinct-words': {'escaped_len', 'str_to_lines', 'escape_str_for_quote', 'determine_quote_strategy'}}


def run_item(item, out):
    try:
        if item[0] == 'call':
            out.append(('ok', repr(item[1]())))
        else:
            value, cfg = item
            out.append(('ok', prettyprinter.pformat(value, **cfg)))
    except Exception as e:
        out.append(('exc', '%s: %s' % (type(e).__name__, e)))


CHECKPOINT = [None]


def run_program(prog, out):
    for j, item in enumerate(prog):
        run_item(item, out)
        if CHECKPOINT[0] is not None:
            CHECKPOINT[0](j + 1)


def call_orders(progs):
    """all sequential orders of the individual calls (interleavings that keep each thread's own order)"""
    def rec(pos):
        if all(pos[i] == len(progs[i]) for i in range(len(progs))):
            yield ()
            return
        for i in range(len(progs)):
            if pos[i] < len(progs[i]):
                nxt = list(pos)
                nxt[i] += 1
                for rest in rec(nxt):
                    yield ((i, pos[i]),) + rest
    return list(rec([0] * len(progs)))


COOP = []


def install_coop_locks(s):
    """replace lock objects that are module globals of the package by cooperative locks"""
    import sys
    import threading
    lock_types = (type(threading.Lock()), type(threading.RLock()))
    n = 0
    del COOP[:]
    for modname, mod in list(sys.modules.items()):
        if modname.startswith('prettyprinter'):
            for attr, val in list(vars(mod).items()):
                if isinstance(val, lock_types):
                    lk = sched.SchedRLock(s, modname + '.' + attr)
                    COOP.append(lk)
                    setattr(mod, attr, lk)
                    n += 1
    return n


def schedule_child(arg):
    """runs ONE schedule in a forked child. arg = (scenario name, policy spec, files override)"""
    name, spec, files = arg
    progs, sfiles, warm = scenario(name)
    files = files or sfiles
    M.install_warning_recorder()
    if warm:
        for prog in progs:
            run_program(prog, [])
    M.take_warnings()
    kind = spec[0]
    if kind == 'none':
        policy = sched.NoPreemption()
    elif kind == 'at':
        policy = sched.PreemptAt({(a, k): t for a, k, t in spec[1]})
    elif kind == 'infunc':
        policy = sched.PreemptInFunctions(spec[1], spec[2], HEAVY[name] if name in HEAVY else SHARED_STATE_FUNCS, spec[3])
    elif kind == 'at+call':
        policy = sched.PreemptThenReturnAtCall(spec[1], spec[2], spec[3], spec[4])
    elif kind == 'random':
        policy = sched.RandomPriority(V.rng_for('c20pct', spec[1]), len(progs), spec[2], spec[3])
    s = sched.Scheduler(files, policy, watchdog=20.0)
    CHECKPOINT[0] = s.checkpoint
    nlocks = install_coop_locks(s)
    outs = [[] for _ in progs]
    for i, prog in enumerate(progs):
        s.add(lambda prog=prog, out=outs[i]: run_program(prog, out))
    first = spec[-1] if kind in ('none',) else (spec[1][0][0] if kind == 'at' else (spec[1] if kind in ('infunc', 'at+call') else 0))
    ok = s.run(first=first)
    ws = M.take_warnings()
    return {'ok': ok, 'stuck': s.stuck, 'deadlock': s.deadlock, 'results': outs, 'steps': list(s.steps), 'switches': s.switches[:20],
            'nswitches': len(s.switches), 'sites': list(s.sites.items()), 'warnings': [w[1][:300] for w in ws], 'locks': nlocks, 'contended': sum(l.contended for l in COOP), 'acquisitions': sum(l.acquisitions for l in COOP),
            'preempted_before_finish': any(sw[3] != '?' for sw in s.switches)}


def sequential_child(arg):
    name, order = arg
    progs, _, warm = scenario(name)
    M.install_warning_recorder()
    if warm:
        for prog in progs:
            run_program(prog, [])
    M.take_warnings()
    outs = [[] for _ in progs]
    for i, j in order:
        run_item(progs[i][j], outs[i])
    return outs, [w[1][:300] for w in M.take_warnings()]


def classify(results, warnings, refs, name=None):
    """mechanism key of a wrong concurrent outcome"""
    if name is not None:
        # a value printed through its default repr although a (deferred) printer exists for it
        def reprs(v):
            out = [repr(v)]
            if isinstance(v, (list, tuple)):
                for x in v:
                    out.extend(reprs(x))
            elif isinstance(v, dict):
                for x in v.values():
                    out.extend(reprs(x))
            return out
        for prog, out, ref in zip(scenario(name)[0], results, refs[0]):
            for (value, cfg), r, rr in zip(prog, out, ref):
                if r[0] == 'ok' and r != rr and not isinstance(value, (str, int)):
                    if any(x in r[1] and x not in rr[1] for x in reprs(value) if len(x) > 3):
                        return 'repr-fallback-between-pop-and-register'
    for out in results:
        for r in out:
            if r[0] == 'exc':
                if 'KeyError' in r[1]:
                    return 'keyerror-deferred-pop'
                if 'changed size during iteration' in r[1]:
                    return 'registry-changed-size-during-dispatch'
                return 'call-raised'
    for out in results:
        for r in out:
            if r[0] == 'ok' and ('object at 0x' in r[1] or 'UUID(\'' in r[1] and 'uuid.UUID' not in r[1]):
                return 'repr-fallback-between-pop-and-register'
    return 'non-sequential-outcome'


def judge(sh, name, spec, res, refs, ref_warnings):
    case = {'scenario': name, 'schedule': spec}
    if res['stuck']:
        sh.counters['schedules stuck (watchdog, not judged)'] += 1
        return
    if res['deadlock']:
        sh.violation('deadlock', 'all remaining threads are blocked on locks; switches %r' % (res['switches'],), case)
        return
    sh.counters['schedules run'] += 1
    if res['preempted_before_finish']:
        sh.counters['schedules that preempted a running thread'] += 1
    for (site, cnt) in res['sites']:
        sh.see('preemption sites (function, line)', '%s:%s' % site)
        if site[0] in SHARED_STATE_FUNCS:
            sh.counters['preemptions inside registry functions'] += cnt
    sh.see('outcomes:' + name, repr(res['results']))
    if res['locks']:
        sh.counters['cooperative locks installed'] += res['locks']
        sh.counters['lock acquisitions observed'] += res.get('acquisitions', 0)
        if res.get('contended'):
            sh.counters['schedules in which a thread had to wait for the registry lock'] += 1
    if res['results'] not in refs:
        key = classify(res['results'], res['warnings'], refs, name)
        sh.violation(key, 'results %r equal no sequential order of the same calls (e.g. %r); switches %r' % (res['results'], refs[0], res['switches'][:6]), case)
        return
    extra = [w for w in res['warnings'] if w not in ref_warnings]
    if extra:
        sh.violation('extra-warning', 'warning not produced by any sequential run: %r' % extra[0], case)
        return
    sh.counters['schedules whose results equal a sequential order'] += 1


def run_shard(sh):
    quick = sh.tier == 'quick'
    names = list(SCENARIOS) + ['R:%d:%d' % (sh.seed, i) for i in range(8 if quick else 150)]
    # sequential references and solo step counts (every shard needs them; cheap)
    refs, refw, nsteps = {}, {}, {}
    for name in names:
        progs = scenario(name)[0]
        refs[name], refw[name] = [], []
        orders = call_orders(progs)
        if len(orders) > 40:
            orders = orders[:20] + orders[-20:]
        for order in orders:
            status, r = fork_call(sequential_child, (name, order), timeout=120)
            if status != 'ok':
                sh.inconclusive.append('sequential reference %s: %s %s' % (name, status, str(r)[:200]))
                continue
            if r[0] not in refs[name]:
                refs[name].append(r[0])
            refw[name].extend(r[1])
    jobs = []
    for name in names:
        progs, files, warm = scenario(name)
        if not refs[name]:
            continue
        rand = name.startswith('R:')
        if name in HEAVY:
            for nth in range(1, 400 if quick else 1200):
                jobs.append((name, ('infunc', 0, 1, nth), None))
            continue
        file_sets = [None]
        if not quick and STDLIB_FILES[0] not in files:
            file_sets.append((PKG,) + STDLIB_FILES)
        for fs in file_sets:
            for a in range(len(progs)):
                status, r = fork_call(schedule_child, (name, ('none', a), fs), timeout=120)
                if status != 'ok' or r['stuck']:
                    sh.inconclusive.append('solo run %s: %s' % (name, status))
                    continue
                n_a = r['steps'][a]
                nsteps[(name, a, fs is not None)] = n_a
                others = [b for b in range(len(progs)) if b != a]
                if len(progs) == 2:
                    # quick: the two long scenarios that touch no registry state on first use are sampled 1:6
                    stride = (12 if quick else 3) if name.startswith(('S4', 'S5')) else (4 if quick and name.startswith(('S9', 'S10', 'S13', 'S14')) else (2 if quick and name.startswith(('S15', 'S16', 'S17', 'S18')) else 1))
                    if rand:
                        stride = 25 if quick else 5
                    for k in range(1, n_a + 1, stride):
                        jobs.append((name, ('at', [(a, k, others[0])]), fs))
                else:
                    for k in range(1, n_a + 1, 7 if quick else 2):
                        jobs.append((name, ('at', [(a, k, others[k % len(others)])]), fs))
                # A preempted at every k, B switched back at each of its call boundaries (catches A's delayed writes that
                # only a LATER call of B can observe)
                if len(progs) == 2 and len(progs[others[0]]) > 1:
                    stride2 = (40 if name.startswith('S5') else (10 if name.startswith(('S15', 'S16', 'S17', 'S18')) else 5)) if quick else 1
                    if rand:
                        stride2 = 40 if quick else 6
                    for jb in range(1, len(progs[others[0]])):
                        for k in range(1, n_a + 1, stride2):
                            jobs.append((name, ('at+call', a, k, others[0], jb), fs))
                # two preemptions: A preempted at k1, B preempted the n-th time it is inside a registry function
                if len(progs) == 2 and not rand:
                    k1s = range(1, n_a + 1, 150 if quick else (40 if name.startswith(('S4', 'S5')) else 10))
                    for k1 in k1s:
                        for nth in (range(1, 40, 9) if quick else range(1, 120, 4)):
                            jobs.append((name, ('at+infunc', a, k1, others[0], nth), fs))
        if len(progs) == 3:
            total = sum(v for (n_, a_, f_), v in nsteps.items() if n_ == name and not f_)
            for i in range(300 if quick else 6000):
                jobs.append((name, ('random', (sh.seed, name, i), max(total, 10), 1 + i % 3, 0), None))
    sh.notes['solo package-line counts'] = {'%s thread %d%s' % (n_, a_, ' (+functools/weakref)' if f_ else ''): v for (n_, a_, f_), v in nsteps.items()}
    run_stress(sh, refs)
    for j, (name, spec, fs) in enumerate(jobs):
        if not sh.mine(j):
            continue
        if spec[0] == 'at+infunc':
            _, a, k1, b, nth = spec
            real = ('at2', a, k1, b, nth)
            status, r = fork_call(two_preemption_child, (name, a, k1, b, nth, fs), timeout=120)
        else:
            status, r = fork_call(schedule_child, (name, spec, fs), timeout=120)
        if status != 'ok':
            sh.counters['schedule children failed (not judged): ' + status] += 1
            continue
        judge(sh, name, list(spec) + ([list(fs)] if fs else []), r, refs[name], refw[name])
        sh.case((name, repr(spec), fs is not None), nontrivial=r['preempted_before_finish'])
        if j % 2500 == 0:
            sh.sample({'scenario': name, 'schedule': list(spec), 'switches': r['switches'][:4], 'results': r['results']})


class TwoPoint:
    """A is preempted before its k1-th line; then B is preempted the nth time it executes a line inside a registry function; A finishes; B finishes."""

    def __init__(self, a, k1, b, nth):
        self.a, self.k1, self.b, self.nth = a, k1, b, nth
        self.seen = 0
        self.second_done = False

    def decide(self, s, me, step, code, line):
        if me == self.a and step == self.k1:
            return self.b
        if me == self.b and not self.second_done and s.steps[self.a] >= self.k1 and code.co_qualname in SHARED_STATE_FUNCS:
            self.seen += 1
            if self.seen == self.nth:
                self.second_done = True
                return self.a
        return None


def two_preemption_child(arg):
    name, a, k1, b, nth, files = arg
    progs, sfiles, warm = scenario(name)
    files = files or sfiles
    M.install_warning_recorder()
    if warm:
        for prog in progs:
            run_program(prog, [])
    M.take_warnings()
    s = sched.Scheduler(files, TwoPoint(a, k1, b, nth), watchdog=20.0)
    nlocks = install_coop_locks(s)
    outs = [[] for _ in progs]
    for i, prog in enumerate(progs):
        s.add(lambda prog=prog, out=outs[i]: run_program(prog, out))
    ok = s.run(first=a)
    ws = M.take_warnings()
    return {'ok': ok, 'stuck': s.stuck, 'deadlock': s.deadlock, 'results': outs, 'steps': list(s.steps), 'switches': s.switches[:20],
            'nswitches': len(s.switches), 'sites': list(s.sites.items()), 'warnings': [w[1][:300] for w in ws], 'locks': nlocks, 'contended': sum(l.contended for l in COOP), 'acquisitions': sum(l.acquisitions for l in COOP),
            'preempted_before_finish': any(sw[3] != '?' for sw in s.switches)}


def stress_child(arg):
    """real threads, real lock, tiny switch interval: no determinism, but the real lock object is exercised (deadlocks, re-entrancy)"""
    import sys
    import threading
    name, nthreads = arg
    progs = scenario(name)[0]
    M.install_warning_recorder()
    sys.setswitchinterval(1e-6)
    barrier = threading.Barrier(nthreads)
    outs = [[] for _ in range(nthreads)]

    def work(i):
        barrier.wait(timeout=10)
        run_program(progs[i % len(progs)], outs[i])
    ts = [threading.Thread(target=work, args=(i,), daemon=True) for i in range(nthreads)]
    for t in ts:
        t.start()
    alive = False
    for t in ts:
        t.join(timeout=20)
        alive = alive or t.is_alive()
    return outs, alive, [w[1][:200] for w in M.take_warnings()]


def run_stress(sh, refs):
    quick = sh.tier == 'quick'
    # only scenarios whose results do not depend on the order of the calls (one sequential outcome)
    names = [n for n in SCENARIOS if len(SCENARIOS[n][0]) == 2 and len(refs.get(n, ())) == 1]
    for i in range(160 if quick else 4000):
        if not sh.mine(i):
            continue
        name = names[i % len(names)]
        nthreads = 4 + 2 * (i % 3)
        status, r = fork_call(stress_child, (name, nthreads), timeout=60)
        if status != 'ok':
            sh.counters['stress children failed (not judged): ' + status] += 1
            continue
        outs, alive, ws = r
        case = {'scenario': name, 'schedule': ['stress', nthreads, i]}
        if alive:
            sh.violation('thread-hung-in-stress-run', 'a thread did not finish within 20 s with %d real threads' % nthreads, case)
            continue
        want = refs[name][0]
        for j, out in enumerate(outs):
            if out != want[j % 2]:
                sh.violation(classify([out if (j % 2) == q else want[q] for q in range(2)], ws, refs[name], name), 'stress run with %d real threads: thread %d got %r' % (nthreads, j, out), case)
                break
        else:
            sh.counters['stress runs (real threads, real lock) consistent'] += 1
        sh.case(('stress', name, nthreads, i), nontrivial=True)


def finalize(m):
    for name in ('schedules run', 'schedules that preempted a running thread', 'schedules whose results equal a sequential order', 'preemptions inside registry functions'):
        if not m.counters.get(name):
            m.inconclusive.append('monitor never reached: ' + name)
    stuck = m.counters.get('schedules stuck (watchdog, not judged)', 0)
    failed = sum(v for k, v in m.counters.items() if k.startswith('schedule children failed'))
    if stuck + failed > 0.01 * max(1, m.evaluations + stuck + failed):
        m.inconclusive.append('%d schedules stuck, %d children failed' % (stuck, failed))
    if len(m.sets.get('preemption sites (function, line)', ())) < 100:
        m.inconclusive.append('fewer than 100 distinct preemption sites were exercised')


def replay(wit):
    c = wit['case']
    name, spec = c['scenario'], c['schedule']
    fs = None
    if spec and isinstance(spec[-1], list) and spec[-1] and isinstance(spec[-1][0], str) and spec[-1][0].startswith('/'):
        fs = tuple(spec[-1])
        spec = spec[:-1]
    refs = []
    for order in call_orders(scenario(name)[0]):
        st, r = fork_call(sequential_child, (name, order), timeout=120)
        if st == 'ok' and r[0] not in refs:
            refs.append(r[0])
    if spec[0] == 'at+infunc':
        st, r = fork_call(two_preemption_child, (name, spec[1], spec[2], spec[3], spec[4], fs), timeout=120)
    else:
        spec2 = list(spec)
        if spec2[0] == 'at':
            spec2[1] = [tuple(x) for x in spec2[1]]
        if spec2[0] == 'random':
            spec2[1] = tuple(spec2[1])
        st, r = fork_call(schedule_child, (name, tuple(spec2), fs), timeout=120)
    print('scenario', name, 'schedule', spec)
    if st != 'ok':
        print('child failed:', st, r)
        return False
    print('switches:', r['switches'][:8])
    print('results :', r['results'])
    print('sequential results:', refs)
    if r['results'] not in refs:
        print('VIOLATED', classify(r['results'], r['warnings'], refs, name))
        return False
    if r['deadlock']:
        print('VIOLATED deadlock')
        return False
    print('holds on this case')
    return True


TECHNIQUE = 'deterministic thread scheduler on sys.monitoring LINE events (baton passing, cooperative locks), exhaustive single-preemption schedules in forked interpreters, sequential-consistency oracle'
LEVEL_TEXT = ('Schedules with one preemption at a package line boundary (both role assignments; exhaustive for the short first-use scenarios, strided for the long ones) of eighteen fixed 2-3 thread scenarios (one of them "heavy": preemption only inside the string-measuring functions) '
              '(first use of lazily registered types, user registrations / printer replacement / set_default_config racing with prints) and of seeded random scenarios from an operation pool are executed '
              'deterministically, each in a fresh fork with an intact deferred registry; plus "preempt anywhere, switch back at the other thread\'s call boundaries", two-preemption and random-priority schedules, '
              'and a stress sub-run with real threads and the real lock. Every call\'s result must equal that of some sequential order of the individual calls and nothing may raise or deadlock.')
LEVEL_NOTE = '"Every interleaving" is restated as "every interleaving with <= 1 preemption at line granularity, sampled beyond"; in the quick tier switch points inside functools/weakref are used for scenario S3 only.'
