"""C05 - a group laid out on one line never overflows the page or the ribbon (see _fit.py)."""
from . import _fit

RULE = ('all classic-algebra terms (text, concat/2-3, nest, group, line, softline, hardline, always_break, align, annotate) with <= 5 (thorough 6) nodes containing a group, plus random larger ones, '
        'at boundary-directed widths (around the flat widths of their groups) x ribbon fractions x {smart, fast}; a case is (term, width, fraction, strategy); all contain a group, so all are non-trivial')
ASSUMPTIONS = ['group decisions are recovered existentially from the output (a wrong decision explainable by another assignment of the same text goes unseen)',
               'membership uses the lenient reading; for groups containing a bare HARDLINE only the first line is judged']


def run_shard(sh):
    _fit.run_terms(sh, 'C05')


def finalize(m):
    for name in ('layouts judged', 'witness: flat_groups', 'witness: broken_groups', 'witness: exact_fit', 'layouts with both flat and broken groups'):
        if not m.counters.get(name):
            m.inconclusive.append('monitor never reached: ' + name)
    if m.counters.get('matcher budget exhausted', 0) > 0.001 * (m.evaluations or 1):
        m.inconclusive.append('matcher budget exhausted too often')


def replay(wit):
    return _fit.replay_term('C05', wit)


LEVEL = 'exploration'
TECHNIQUE = 'runtime oracle: group decisions recovered from the real SDoc stream by the reference matcher, existential witness under the line-end <= min(W, indent+R) obligation'
LEVEL_TEXT = ('Every classic-algebra term up to 5 nodes (thorough 6) with a group and random larger ones are laid out by the real engine at widths aimed at exact fit; the check passes a layout only if '
              'some flat/broken assignment consistent with the emitted stream has every flat group\'s line within page and ribbon.')
LEVEL_NOTE = 'Existential witness; trusts vlib/refsem.py; stats of flat/broken/exact-fit groups observed are in the evidence.'
ANCHORS = ['layout.best_layout', 'layout.smart_fitting_predicate', 'layout.fast_fitting_predicate']
